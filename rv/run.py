#!/venv/bin/python
"""CLI: rv/run.py <Cxx> [--tier quick|thorough] [--replay file]"""
import os
import sys

sys.dont_write_bytecode = True
sys.path.insert(0, os.path.dirname(os.path.dirname(os.path.abspath(__file__))))

from rv.core.runner import main  # noqa: E402

if __name__ == "__main__":
    sys.exit(main())
