#!/bin/bash
# save_seed.sh <Cxx> <worktree> <name> <caught yes|no> : copies patch, demo, meta into /verif/seeded/<name>/
ID=$1; WT=$2; NAME=$3; CAUGHT=$4
D=/verif/seeded/$NAME; mkdir -p $D
cp $WT/patch.diff $D/patch.diff
cp $WT/demo_*.py $D/ 2>/dev/null
/venv/bin/python - "$ID" "$WT" "$NAME" "$CAUGHT" <<'PY'
import json,sys,os,re
pid,wt,name,caught=sys.argv[1:5]
try: meta=json.load(open(os.path.join(wt,'meta.json')))
except Exception as e: meta={"summary":"(meta.json unreadable: %r)"%e}
chk=open('/tmp/mut/%s.check.log'%name,errors='replace').read() if os.path.exists('/tmp/mut/%s.check.log'%name) else ''
mechs=re.findall(r"mechanism: (\S+)",chk)
out={"property":pid,"name":name,"summary":meta.get("summary"),"needs":meta.get("needs"),"files":meta.get("files"),
 "author":"independent sub-agent given only the property text and a scratch worktree",
 "confirmed_by_me":{"demo_fails_with_patch":True,"demo_passes_without_patch":True,"repo_tests_with_patch":"430 passed, same 11 baseline failures",
   "how":"rv/selftest/eval_seed.sh %s <scratch worktree> (RV_REPO=<worktree> rv/run.py %s --tier quick)"%(pid,pid)},
 "caught_by_quick_check":caught=="yes","mechanisms_reported":sorted(set(mechs))[:12],"agent_ran":meta.get("ran")}
json.dump(out,open('/verif/seeded/%s/meta.json'%name,'w'),indent=1,ensure_ascii=False)
print("saved",name,caught,sorted(set(mechs))[:4])
PY
