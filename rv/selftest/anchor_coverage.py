"""Which lines of the files a property is anchored in does its quick workload actually execute?

    /venv/bin/python -B rv/selftest/anchor_coverage.py C07 [C08 ...]     (all checks when none is given)

Runs shard 0/16 of the quick tier of each check under coverage.py (source = <repo>/rich) and prints, per anchored
file, the share of executed statements and the functions of which NO statement ran.  A diagnostic for the people
maintaining the generators ("it says nothing about paths the workload never drives"), not a check: it decides
nothing and writes nothing under /verif.
"""
import ast
import json
import os
import subprocess
import sys
import tempfile

HERE = os.path.dirname(os.path.abspath(__file__))
ROOT = os.path.dirname(os.path.dirname(HERE))
REPO = os.environ.get("RV_REPO", "/repo")


def functions(path):
    tree = ast.parse(open(path).read())
    out = []

    def walk(node, prefix):
        for ch in ast.iter_child_nodes(node):
            if isinstance(ch, (ast.FunctionDef, ast.AsyncFunctionDef)):
                body = [n.lineno for n in ast.walk(ch) if isinstance(n, ast.stmt) and n is not ch]
                out.append((prefix + ch.name, ch.lineno, max(body or [ch.lineno]), set(body)))
                walk(ch, prefix + ch.name + ".")
            elif isinstance(ch, ast.ClassDef):
                walk(ch, prefix + ch.name + ".")
            else:
                walk(ch, prefix)
    walk(tree, "")
    return out


def main(ids):
    props = {}
    for line in open(os.path.join(ROOT, "properties.jsonl")):
        d = json.loads(line)
        props[d["id"]] = d
    ids = ids or sorted(props)
    for cid in ids:
        tmp = tempfile.mkdtemp(prefix="rvcov_")
        data = os.path.join(tmp, "cov")
        env = dict(os.environ, PYTHONHASHSEED="0", COVERAGE_FILE=data)
        subprocess.run([sys.executable, "-B", "-m", "coverage", "run", "--source", os.path.join(REPO, "rich"),
                        os.path.join(ROOT, "rv", "run.py"), cid, "--tier", "quick", "--shard", "0/16",
                        "--out", os.path.join(tmp, "shard.json"), "--budget", os.environ.get("RV_COV_BUDGET", "40")],
                       env=env, cwd=ROOT, stdout=subprocess.DEVNULL, stderr=subprocess.DEVNULL, timeout=1200)
        rep = os.path.join(tmp, "cov.json")
        subprocess.run([sys.executable, "-B", "-m", "coverage", "json", "-o", rep, "--data-file", data],
                       cwd=ROOT, stdout=subprocess.DEVNULL, stderr=subprocess.DEVNULL)
        try:
            cov = json.load(open(rep))["files"]
        except Exception as e:
            print(cid, "no coverage data", e)
            continue
        print("== %s  %s" % (cid, props[cid]["title"]))
        for rel in props[cid]["anchors"]["files"]:
            path = os.path.join(REPO, rel)
            f = cov.get(path) or cov.get(os.path.realpath(path))
            if f is None:
                print("   %-24s never imported / nothing executed" % rel)
                continue
            ex = set(f["executed_lines"])
            miss = set(f["missing_lines"])
            dead = []
            partial = []
            for name, lo, hi, body in functions(path):
                body = body & (ex | miss)
                if not body:
                    continue
                hit = len(body & ex)
                if hit == 0:
                    dead.append(name)
                elif hit < len(body):
                    partial.append("%s(%d/%d)" % (name, hit, len(body)))
            print("   %-24s %4d/%4d statements; functions never entered: %s" %
                  (rel, len(ex), len(ex) + len(miss), ", ".join(dead) or "-"))
            if os.environ.get("RV_COV_PARTIAL"):
                print("       partially: " + ", ".join(partial))
                print("       missing lines: " + " ".join(map(str, sorted(miss))))
        subprocess.run(["rm", "-rf", tmp])


if __name__ == "__main__":
    main(sys.argv[1:])
