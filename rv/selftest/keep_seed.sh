#!/bin/bash
# keep_seed.sh <Cxx> <worktree> <name> <round> <history text>
# After eval_seed.sh (and, if the seed was missed, after strengthening the check): re-runs the owning quick check against
# the worktree, saves patch / demonstration / meta under seeded/<name>/ and records the round and the history note.
ID=$1; WT=$2; NAME=$3; ROUND=$4; HIST=$5
cd /verif; RV_REPO=$WT timeout 1200 /venv/bin/python -B rv/run.py $ID --tier quick --no-evidence > /tmp/mut/$NAME.check.log 2>&1; C=$?
[ $C = 1 ] && CAUGHT=yes || CAUGHT=no
bash /verif/rv/selftest/save_seed.sh $ID $WT $NAME $CAUGHT
/venv/bin/python - "$NAME" "$ROUND" "$HIST" <<'PY'
import json,sys
name,rnd,hist=sys.argv[1:4]
p='/verif/seeded/%s/meta.json'%name
m=json.load(open(p)); m['round']=int(rnd); m['history']=hist
json.dump(m,open(p,'w'),indent=1,ensure_ascii=False)
PY
echo "check exit=$C"
