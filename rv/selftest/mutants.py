#!/venv/bin/python
"""Mutant self-test (not a registered check): applies one source mutation at a time to a scratch copy of
/repo/rich (outside /repo and /verif), runs the named quick check against it with RV_REPO, expects exit 1,
deletes the copy.  A monitor that lets a listed realistic mutation through gets more observability.

usage: mutants.py [name-substring ...]      (no argument: the whole catalogue)
"""
import json
import os
import shutil
import subprocess
import sys
import tempfile
import time

VERIF = os.path.dirname(os.path.dirname(os.path.dirname(os.path.abspath(__file__))))
REPO = "/repo"

# (name, check, file, old, new)   - `old` must occur exactly once in the file
CATALOGUE = [
    # ---- C13
    ("cells-binary-search-off-by-one", "C13", "cells.py", "upper_bound = index - 1", "upper_bound = index - 2"),
    ("set_cell_size-no-space-for-cut-wide", "C13", "cells.py", "    if excess == -1:\n        text += \" \"", "    if False:\n        text += \" \""),
    ("cell_len-cache-by-length", "C13", "cells.py", "    cached_result = _cache.get(text, None)", "    cached_result = _cache.get(text[:40], None)"),
    ("adjust_line_length-le", "C13", "segment.py", "if line_length + segment_length < length or segment.is_control:", "if line_length + segment_length <= length + 1 or segment.is_control:"),
    # ---- C18
    ("downgrade-cube-round", "C18", "color.py", "16 + 36 * round(red * 5.0) + 6 * round(green * 5.0) + round(blue * 5.0)", "16 + 36 * round(red * 6.0) + 6 * round(green * 5.0) + round(blue * 5.0)"),
    ("bright-bg-offset", "C18", "color.py", "            fore, back = (30, 40) if number < 8 else (82, 92)\n            return (str(fore + number if foreground else back + number),)\n\n        elif _type == ColorType.STANDARD:", "            fore, back = (30, 40) if number < 8 else (82, 93)\n            return (str(fore + number if foreground else back + number),)\n\n        elif _type == ColorType.STANDARD:"),
    ("palette-distance-weights", "C18", "palette.py", "+ 4 * green * green", "+ 3 * green * green"),
    # ---- C06
    ("add-left-bias-color", "C06", "style.py", "new_style._color = style._color or self._color", "new_style._color = self._color or style._color"),
    ("str-drops-not", "C06", "style.py", "append(\"strike\" if self.strike else \"not strike\")", "append(\"strike\")"),
    ("copy-stale-hash", "C06", "style.py", "        style._link = link or None\n        style._link_id = f\"{time()}-{randint(0, 999999)}\" if link else \"\"\n        style._hash = None", "        style._link = link or None\n        style._link_id = f\"{time()}-{randint(0, 999999)}\" if link else \"\"\n        style._hash = self._hash"),
    # ---- C04
    ("escape-single-backslash", "C04", "markup.py", "return f\"{backslashes}{backslashes}\\\\{text}\"", "return f\"{backslashes}\\\\{text}\""),
    ("markup-close-pops-first", "C04", "markup.py", "for index, (_, tag, _) in enumerate(reversed(style_stack), 1):", "for index, (_, tag, _) in enumerate(style_stack, 1 - len(style_stack) or 1):"),
    ("markup-spans-sorted-by-value", "C04", "markup.py", "text.spans = [span for _, span in sorted(spans)]", "text.spans = sorted(span for _, span in spans)"),
    # ---- C05
    ("append-no-length-update", "C05", "text.py", "                    self._spans.append(Span(offset, offset + text_length, style))\n                self._length += text_length", "                    self._spans.append(Span(offset, offset + text_length, style))\n                self._length += text_length if (text.strip() or style) else 0"),
    ("pad_left-no-span-shift", "C05", "text.py", "            self.plain = f\"{pad_characters}{self.plain}\"\n            _Span = Span\n            self._spans[:] = [\n                _Span(start + count, end + count, style)", "            self.plain = f\"{pad_characters}{self.plain}\"\n            _Span = Span\n            self._spans[:] = [\n                _Span(start + count, end + count - (count > 3), style)"),
    ("divide-pieces-forget-tab-size", "C05", "text.py", "                overflow=overflow,\n                tab_size=self.tab_size,\n            )\n            for start, end in line_ranges", "                overflow=overflow,\n            )\n            for start, end in line_ranges"),
    ("divide-negative-offsets-not-normalised", "C05", "text.py", "            offset if offset >= 0 else max(0, text_length + offset)", "            offset"),
    ("expand-tabs-asserts-a-tab-size", "C14", "text.py", "        if tab_size is None:\n            # a Text built with tab_size=None leaves the choice to the console; without one, the default\n            tab_size = 8\n", "        assert tab_size is not None\n"),
    ("table-keeps-the-callers-column-objects", "C07", "table.py", "                append_column(replace(header, _index=len(self.columns), _cells=[]))", "                header._index = len(self.columns)\n                append_column(header)"),
    ("style-at-offset-without-default", "C14", "text.py", "        get_style = partial(console.get_style, default=Style.null())\n        style = get_style(self.style).copy()", "        get_style = console.get_style\n        style = get_style(self.style).copy()"),
    ("int-index-forgets-overflow", "C05", "text.py", "                justify=self.justify,\n                overflow=self.overflow,\n                end=\"\",\n                tab_size=self.tab_size,", "                end=\"\",\n                tab_size=self.tab_size,"),
    ("text-without-copy-hook", "C05", "text.py", "    def __copy__(self) -> \"Text\":", "    def _no_copy_hook(self) -> \"Text\":"),
    ("join-result-inherits-separator-style", "C05", "text.py", "        new_text.style = \"\"\n\n        def iter_text()", "        def iter_text()"),
    ("constructor-keeps-spans-beyond-the-end", "C05", "text.py", "                if span.end <= length\n                else Span(min(span.start, length), length, span.style)", "                if True\n                else Span(min(span.start, length), length, span.style)"),
    ("init-length-unstripped", "C05", "text.py", "self._length: int = len(sanitized_text)", "self._length: int = len(text)"),
    ("divide-order-by-start", "C05", "text.py", "            line_spans.sort(key=itemgetter(0))", "            line_spans.sort(key=lambda item: item[1].start)"),
    # ---- C02
    ("full-justify-restyles-every-gap", "C02", "containers.py", "                            Text(\" \", style=line.get_style_at_offset(console, offset))", "                            Text(\" \", style=line.style)"),
    ("wrap-position-len", "C02", "_wrap.py", "line_position = _cell_len(word)\n        else:", "line_position = len(word)\n        else:"),
    ("truncate-ellipsis-width", "C01", "text.py", "self.plain = set_cell_size(self.plain, max_width - 1) + \"…\"", "self.plain = set_cell_size(self.plain, max_width) + \"…\""),
    # ---- C03
    ("apply-style-strips-control-segment-styles", "C03", "segment.py", "                cls(text, _style if is_control else apply(_style), is_control)", "                cls(text, None if is_control else apply(_style), is_control)"),
    ("no-reset-code", "C03", "style.py", "rendered = f\"\\x1b[{attrs}m{text}\\x1b[0m\" if attrs else text", "rendered = f\"\\x1b[{attrs}m{text}\\x1b[0m\" if attrs and self._color else (f\"\\x1b[{attrs}m{text}\" if attrs else text)"),
    ("link-not-closed-on-legacy-flag", "C03", "style.py", "if self._link and not legacy_windows:", "if self._link:"),
    ("ansi-cache-ignores-system", "C03", "style.py", "if self._ansi is None or self._ansi[0] != color_system:", "if self._ansi is None:"),
    ("control-written-to-non-terminal", "C03", "console.py", "            if not_terminal and is_control:\n                continue", "            if not_terminal and is_control and len(text) <= 3:\n                continue"),
    # ---- C19
    ("decoder-splitlines", "C19", "ansi.py", "        lines = terminal_text.split(\"\\n\")\n        if not lines[-1]:\n            lines.pop()\n", "        lines = terminal_text.splitlines() or [\"\"]\n"),
    ("decoder-drops-escapes-before-carriage-return", "C19", "ansi.py", "        line = line.rstrip(\"\\r\")\n        for token in _ansi_tokenize(line):", "        line = line.rstrip(\"\\r\").rsplit(\"\\r\", 1)[-1]\n        for token in _ansi_tokenize(line):"),
    ("live-frame-laid-out-with-the-prints-options", "C10", "live.py", "            options = console.options\n", "            pass\n"),
    ("decoder-bg-bright-off-by-one", "C19", "ansi.py", "    103: \"on color(11)\",", "    103: \"on color(12)\","),
    ("fileproxy-drops-empty-lines", "C19", "file_proxy.py", "                    lines.append(\"\".join(buffer) + line)", "                    if buffer or line:\n                        lines.append(\"\".join(buffer) + line)"),
    ("fileproxy-flush-markup", "C19", "file_proxy.py", "        if output is not None:\n            self.__console.print(output, markup=False, emoji=False, highlight=False)", "        if output is not None:\n            self.__console.print(output.plain)"),
    # (live-keeps-stdout-proxy-alive was retired: since fix 60dbc54 stop() flushes the proxies itself, so keeping one alive
    #  past stop() no longer withholds its pending line - the mutation became equivalent)
    ("progress-stop-does-not-flush-redirect", "C10", "progress.py", "                self._flush_redirected_io()", "                pass"),
    ("progress-redirect-swaps-streams", "C19", "progress.py", "                sys.stderr = FileProxy(self.console, sys.stderr)", "                sys.stderr = sys.stdout if self._redirect_stdout else FileProxy(self.console, sys.stderr)"),
    # ---- C20
    ("pop-does-not-rebind", "C20", "theme.py", "        self._entries.pop()\n        self.get = self._entries[-1].get", "        self._entries.pop()\n        self.get = self._entries[-1].get if len(self._entries) > 1 else self.get"),
    ("use_theme-ignores-inherit", "C20", "console.py", "self.console.push_theme(self.theme, inherit=self.inherit)", "self.console.push_theme(self.theme)"),
    # ---- C16
    ("pretty-one-tuple-comma", "C16", "pretty.py", "            suffix=self.suffix,\n        )", "            suffix=node.separator,\n        )"),
    ("pretty-max-length-count", "C16", "pretty.py", "append(Node(value_repr=f\"... +{num_items-max_length}\", last=True))", "append(Node(value_repr=f\"... +{num_items-max_length+1}\", last=True))"),
    # ---- C01 / C08 / C09 / C07
    ("table-own-width-ignored-when-measuring-columns", "C07", "table.py", "        max_width = options.max_width\n        if self.width is not None:\n            max_width = self.width\n\n        extra_width", "        max_width = options.max_width\n        if self.width is not None and self.expand is True and self._expand:\n            max_width = self.width\n\n        extra_width"),
    ("padding-indent-expands", "C08", "padding.py", "return Padding(renderable, pad=(0, 0, 0, level), expand=False)", "return Padding(renderable, pad=(0, 0, 0, level), expand=True)"),
    ("padding-forgets-right", "C01", "padding.py", "child_options = options.update(width=width - self.left - self.right)", "child_options = options.update(width=width - self.left)"),
    ("tree-prefix-not-subtracted", "C01", "tree.py", "                    - sum(level.cell_length for level in prefix),", "                    - sum(level.cell_length for level in prefix[1:]),"),
    ("panel-child-width-off-by-one", "C08", "panel.py", "            width - 2\n            if self.expand", "            width - 1\n            if self.expand"),
    ("align-center-rounding", "C08", "align.py", "                left = excess_space // 2\n                pad = Segment(\" \" * left, style)", "                left = (excess_space + 1) // 2\n                pad = Segment(\" \" * left, style)"),
    ("columns-column-first-order", "C08", "columns.py", "                    if column_lengths[col]:\n                        row += 1", "                    if column_lengths[col] > 1:\n                        row += 1"),
    ("measure-text-min-uses-len", "C09", "text.py", "min_text_width = max(cell_len(word) for word in text.split())", "min_text_width = max(len(word) for word in text.split())"),
    ("measurement-get-not-clamped", "C09", "measure.py", "                    .with_maximum(_max_width)\n", "\n"),
    ("table-expand-stale-width", "C07", "table.py", "            widths = [_range.maximum or 1 for _range in width_ranges]\n            table_width = sum(widths)\n", "            widths = [_range.maximum or 1 for _range in width_ranges]\n"),
    ("table-column-cells-reversed", "C07", "table.py", "        for cell in column.cells:\n            _append((cell_style, cell))", "        for cell in (list(column.cells)[::-1] if column_index == 1 else column.cells):\n            _append((cell_style, cell))"),
    # ---- C14
    ("color-parse-valueerror", "C14", "color.py", "            except ValueError:\n                raise ColorParseError(", "            except KeyError:\n                raise ColorParseError("),
    # ---- C15
    ("html-escape-order", "C15", "console.py", "return text.replace(\"&\", \"&amp;\").replace(\"<\", \"&lt;\").replace(\">\", \"&gt;\")", "return text.replace(\"<\", \"&lt;\").replace(\"&\", \"&amp;\").replace(\">\", \"&gt;\")"),
    ("record-in-capture", "C15", "console.py", "        not_terminal = not self.is_terminal\n        if self.no_color and color_system:", "        if self.record:\n            self._record_buffer.extend(buffer)\n        not_terminal = not self.is_terminal\n        if self.no_color and color_system:"),
    # ---- C17
    ("syntax-stripnl", "C17", "syntax.py", "get_lexer_by_name(self.lexer_name, stripnl=False, ensurenl=True)", "get_lexer_by_name(self.lexer_name)"),
    ("syntax-range-off-by-one", "C17", "syntax.py", "lines = lines[line_offset:end_line]", "lines = lines[line_offset:end_line - 1]"),
    # ---- C10
    ("live-erase-height-off-by-one", "C10", "live_render.py", "return Control(\"\\r\\x1b[2K\" + \"\\x1b[1A\\x1b[2K\" * (height - 1))", "return Control(\"\\r\\x1b[2K\" + \"\\x1b[1A\\x1b[2K\" * max(0, height - 2))"),
    ("live-stop-no-cursor-restore", "C10", "live.py", "                self.console.pop_render_hook()\n                self.console.show_cursor(True)", "                self.console.pop_render_hook()\n                self.console.show_cursor(not self.transient)"),
    ("progress-start-leak", "C10", "progress.py", "            except BaseException:\n                # the with block is never entered", "            except KeyError:\n                # the with block is never entered"),
    # ---- C12
    ("advance-without-lock", "C12", "progress.py", "        with self._lock:\n            current_time = self.get_time()\n            task = self._tasks[task_id]\n            completed_start = task.completed\n            task.completed += advance", "        if True:\n            current_time = self.get_time()\n            task = self._tasks[task_id]\n            completed_start = task.completed\n            task.completed += advance"),
    ("advance-reads-clock-before-lock", "C12", "progress.py", "        with self._lock:\n            current_time = self.get_time()\n            task = self._tasks[task_id]\n            completed_start = task.completed", "        current_time = self.get_time()\n        with self._lock:\n            task = self._tasks[task_id]\n            completed_start = task.completed"),
    ("update-link-keeps-definition", "C06", "style.py", "        style._ansi = self._ansi\n        style._style_definition = None\n        style._color = self._color", "        style._ansi = self._ansi\n        style._style_definition = self._style_definition\n        style._color = self._color"),
    ("empty-print-bypasses-hooks", "C10", "console.py", "        if not objects:\n            objects = (NewLine(),)\n", "        if not objects:\n            self.line()\n            return\n"),
    ("crlf-line-lost", "C19", "ansi.py", "        line = line.rstrip(\"\\r\")\n        for token in _ansi_tokenize(line):", "        for token in _ansi_tokenize(line):"),
    ("add-column-no-backfill", "C07", "table.py", "        for _ in self.rows:\n            column._cells.append(Text(\"\"))\n        self.columns.append(column)", "        self.columns.append(column)"),
    ("panel-title-keeps-justify", "C08", "panel.py", "            title_text.justify = None\n", ""),
    ("split-drops-nonblank-last-piece", "C05", "text.py", "        if not allow_blank and text.endswith(separator) and not lines[-1].plain:", "        if not allow_blank and text.endswith(separator):"),
    ("styled-control-to-non-terminal", "C03", "console.py", "            if not_terminal and is_control:\n                continue\n            if style:", "            if style:"),
    ("traceback-lexer-guess-raises", "C17", "traceback.py", "        except ClassNotFound:\n            # no lexer for this file name: show the source without highlighting\n            lexer_name = \"text\"", "        except ZeroDivisionError:\n            lexer_name = \"text\""),
    ("transient-live-drawn-in-full-at-stop", "C10", "live.py", "                if not self.transient:\n                    self.vertical_overflow = \"visible\"", "                self.vertical_overflow = \"visible\""),
    ("live-stop-does-not-flush-redirect", "C10", "live.py", "                self._flush_redirected_io()\n", ""),
    ("update-same-total-resets-finish", "C12", "progress.py", "            if total is not None and total != task.total:", "            if total is not None:"),
    ("end-capture-takes-whole-buffer", "C15", "console.py", "        render_result = self._render_buffer(self._buffer[start:])\n        del self._buffer[start:]", "        render_result = self._render_buffer(self._buffer)\n        del self._buffer[:]"),
    ("export-html-raw-href", "C15", "console.py", "            return escape(text).replace('\"', \"&quot;\")", "            return text"),
    ("text-init-shares-spans-list", "C05", "text.py", "        self._spans: List[Span] = list(spans) if spans else []", "        self._spans: List[Span] = spans or []"),
    ("render-span-beyond-end-unclamped", "C05", "text.py", "                (min(span.start, text_length), False, index)", "                (span.start, False, index)"),
    ("flexible-column-minimum-one-cell", "C07", "table.py", "                    else max(1 + get_padding_width(column._index), _range.minimum)", "                    else 1 + get_padding_width(column._index)"),
    ("add-row-validates-late", "C07", "table.py", "            if renderable is not None and not is_renderable(renderable):\n                raise errors.NotRenderableError(\n                    f\"unable to render {type(renderable).__name__}; a string or other renderable object is required\"\n                )\n        for index, renderable in enumerate(cell_renderables):", "            pass\n        for index, renderable in enumerate(cell_renderables):"),
    ("whitespace-text-measures-whole-string", "C09", "text.py", "            return Measurement(max_text_width, max_text_width)", "            return Measurement(cell_len(text), cell_len(text))"),
    ("titled-panel-always-four-cells", "C01", "panel.py", "        if title_text is None or width < 4:", "        if title_text is None:"),
    ("decoder-reset-closes-link", "C19", "ansi.py", "                            _Style.null().update_link(link) if link else _Style.null()", "                            _Style.null()"),
    ("fileproxy-without-lock", "C11", "file_proxy.py", "        with self.__lock:\n            buffer = self.__buffer\n            lines: List[str] = []", "        if True:\n            buffer = self.__buffer\n            lines: List[str] = []"),
    ("rgb-name-keeps-blanks", "C06", "color.py", "            return cls(\"\".join(color.split()), ColorType.TRUECOLOR, triplet=triplet)", "            return cls(color, ColorType.TRUECOLOR, triplet=triplet)"),
    ("percentage-not-clamped-low", "C12", "progress.py", "completed = min(100.0, max(0.0, completed))\n        return completed", "completed = min(100.0, completed)\n        return completed"),
    ("finished-time-overwritten", "C12", "progress.py", "            if task.completed >= task.total and task.finished_time is None:\n                task.finished_time = task.elapsed\n\n    def refresh", "            if task.completed >= task.total:\n                task.finished_time = task.elapsed\n\n    def refresh"),
    # ---- C11
    ("check-buffer-without-lock", "C11", "console.py", "        with self._lock:\n            if self._buffer_index == 0:", "        if True:\n            if self._buffer_index == 0:"),
    ("shared-buffer-not-thread-local", "C11", "console.py", "class ConsoleThreadLocals(threading.local):", "class ConsoleThreadLocals(object):"),
    ("progress-refresh-without-lock", "C11", "progress.py", "                with self._lock:\n                    self._live_render.set_renderable(self.get_renderable())", "                if True:\n                    self._live_render.set_renderable(self.get_renderable())"),
    ("live-refresh-without-lock", "C11", "live.py", "            with self._lock, self.console:\n                self.console.print(Control(\"\"))", "            with self.console:\n                self.console.print(Control(\"\"))"),
]


def run_one(name, check, fname, old, new, keep=False):
    scratch = tempfile.mkdtemp(prefix="rv-mut-")
    try:
        shutil.copytree(os.path.join(REPO, "rich"), os.path.join(scratch, "rich"))
        # the documentation tables are used as oracles (C06, C18): they are part of the tree under test
        os.makedirs(os.path.join(scratch, "docs", "source", "appendix"))
        shutil.copy(os.path.join(REPO, "docs", "source", "appendix", "colors.rst"),
                    os.path.join(scratch, "docs", "source", "appendix", "colors.rst"))
        shutil.copy(os.path.join(REPO, "docs", "source", "style.rst"), os.path.join(scratch, "docs", "source", "style.rst"))
        path = os.path.join(scratch, "rich", fname)
        src = open(path, encoding="utf-8").read()
        if src.count(old) != 1:
            return {"name": name, "check": check, "status": "pattern-not-unique (%d)" % src.count(old)}
        open(path, "w", encoding="utf-8").write(src.replace(old, new))
        r = subprocess.run([sys.executable, "-B", "-c", "import sys; sys.path.insert(0, %r); import rich.console, rich.table, rich.progress, rich.syntax" % scratch],
                           capture_output=True, text=True, timeout=120)
        if r.returncode != 0:
            return {"name": name, "check": check, "status": "does-not-import", "err": r.stderr[-300:]}
        env = dict(os.environ, RV_REPO=scratch)
        t0 = time.time()
        r = subprocess.run([sys.executable, "-B", os.path.join(VERIF, "rv", "run.py"), check, "--tier", "quick", "--no-evidence"],
                           capture_output=True, text=True, env=env, cwd=VERIF, timeout=1800)
        mechs = [l.split("mechanism:")[1].split("(")[0].strip() for l in r.stdout.splitlines() if "mechanism:" in l]
        return {"name": name, "check": check, "exit": r.returncode, "caught": r.returncode == 1,
                "mechanisms": mechs[:4], "wall": round(time.time() - t0, 1)}
    finally:
        if not keep:
            shutil.rmtree(scratch, ignore_errors=True)


def main():
    sel = sys.argv[1:]
    rows = []
    for m in CATALOGUE:
        if sel and not any(s in m[0] or s == m[1] for s in sel):
            continue
        res = run_one(*m)
        rows.append(res)
        print(json.dumps(res, ensure_ascii=False), flush=True)
    caught = sum(1 for r in rows if r.get("caught"))
    print("SUMMARY: %d/%d caught; missed: %s; problems: %s" % (
        caught, len(rows), [r["name"] for r in rows if r.get("caught") is False],
        [(r["name"], r["status"]) for r in rows if "status" in r]))


if __name__ == "__main__":
    main()
