"""Which parameters of the public functions in a property's anchor files did the quick workload ever pass with a
value other than the default?

    /venv/bin/python -B rv/selftest/param_coverage.py C08 [C07 ...]

Runs shard 0/16 of the quick tier in-process under sys.setprofile, records for every call into <repo>/rich the
(small) values / types each parameter was bound to, and prints, per anchored file, the public functions never called
and the parameters that only ever had their default value.  A diagnostic for whoever maintains the generators - it
decides nothing and writes nothing under /verif.
"""
import inspect
import json
import os
import sys
import tempfile
import threading

HERE = os.path.dirname(os.path.abspath(__file__))
ROOT = os.path.dirname(os.path.dirname(HERE))
sys.path.insert(0, ROOT)

KEEP = []
SKIP_ARGS = {"self", "cls", "console", "options", "args", "kwargs"}


def small(v):
    if v is None or isinstance(v, (bool, int, float)):
        return repr(v)
    if isinstance(v, str):
        return repr(v) if len(v) <= 12 else "str"
    if isinstance(v, (tuple, list)) and len(v) <= 4 and all(isinstance(x, (int, bool, type(None))) for x in v):
        return repr(v)
    return "%s#%x" % (type(v).__name__, id(v))


def main(ids):
    from rv.core import env, runner
    env.setup_rich()
    repo_rich = os.path.join(env.REPO if hasattr(env, "REPO") else os.environ.get("RV_REPO", "/repo"), "rich") + os.sep
    props = {}
    for line in open(os.path.join(ROOT, "properties.jsonl")):
        d = json.loads(line)
        props[d["id"]] = d
    for cid in ids or sorted(props):
        seen = {}    # code -> {arg: set(values)}

        def prof(frame, event, arg):
            if event != "call":
                return
            code = frame.f_code
            if not code.co_filename.startswith(repo_rich):
                return
            rec = seen.get(code)
            if rec is None:
                rec = seen[code] = {}
            n = code.co_argcount + code.co_kwonlyargcount
            loc = frame.f_locals
            for name in code.co_varnames[:n]:
                s = rec.get(name)
                if s is None:
                    s = rec[name] = set()
                if len(s) < 8:
                    v = loc.get(name)
                    s.add(small(v))
                    if len(s) >= 2:
                        KEEP.append(v)      # keep objects alive so that ids stay unique
        tmp = tempfile.mkdtemp(prefix="rvpar_")
        threading.setprofile(prof)
        sys.setprofile(prof)
        try:
            runner.run_shard(cid, "quick", 0, 0, 16, float(os.environ.get("RV_COV_BUDGET", "30")), os.path.join(tmp, "s.json"))
        finally:
            sys.setprofile(None)
            threading.setprofile(None)
        # map code objects to functions (for defaults)
        import importlib
        print("== %s  %s" % (cid, props[cid]["title"]))
        for rel in props[cid]["anchors"]["files"]:
            modname = rel[:-3].replace("/", ".")
            try:
                mod = importlib.import_module(modname)
            except Exception as e:
                print("   %s: import failed %r" % (rel, e))
                continue
            funcs = []

            def collect(ns, prefix):
                for name, obj in list(vars(ns).items()):
                    raw = obj
                    if isinstance(obj, (classmethod, staticmethod)):
                        raw = obj.__func__
                    if isinstance(raw, property):
                        continue
                    if inspect.isfunction(raw) and raw.__module__ == modname:
                        funcs.append((prefix + name, raw))
                    elif inspect.isclass(obj) and obj.__module__ == modname and not prefix:
                        collect(obj, name + ".")
            collect(mod, "")
            never, always_default = [], []
            for qual, fn in sorted(funcs):
                base = qual.split(".")[-1]
                if base.startswith("_") and base not in ("__init__", "__rich_console__", "__rich_measure__"):
                    continue
                code = fn.__code__
                rec = seen.get(code)
                if rec is None:
                    if not base.startswith("__") or base == "__init__":
                        never.append(qual)
                    continue
                sig = inspect.signature(fn)
                for pname, p in sig.parameters.items():
                    if pname in SKIP_ARGS or p.default is inspect.Parameter.empty:
                        continue
                    vals = rec.get(pname, set())
                    if vals and vals <= {small(p.default)}:
                        always_default.append("%s(%s=%s)" % (qual, pname, small(p.default).split("#")[0]))
            print("   %-22s never called: %s" % (rel, ", ".join(never) or "-"))
            print("   %-22s parameters only ever at their default: %s" % ("", ", ".join(always_default) or "-"))


if __name__ == "__main__":
    main(sys.argv[1:])
