#!/venv/bin/python
"""Systematic mutation sweep (not a registered check; a measuring instrument for the checks).

Generates first-order source mutants of the files the properties are anchored in (AST-located, text-applied: comparison
and arithmetic operators, integer constants, and/or, dropped `not`, negated conditions, deleted statements, min/max,
True/False), keeps the ones that still import AND leave the repository's own test suite unchanged (430 passed, the
same 11 baseline failures) - i.e. exactly the kind of change the brief asks the checks to detect - and runs the quick
checks of the properties anchored in that file against each (RV_REPO=<scratch copy>), stopping at the first that exits 1.

usage: mutsweep.py --out DIR [--seed N] [--per-file K] [--files a.py,b.py] [--jobs J] [--phase 1|2|12]

Everything is written under --out (outside /repo and /verif): mutants.jsonl (phase 1), results.jsonl (phase 2).
Survivors are NOT automatically gaps: an equivalent mutant, or one that changes behaviour no property speaks about,
survives by right.  The triage is by hand and recorded in DESIGN.md section 8.4.
"""
import argparse
import ast
import concurrent.futures as cf
import json
import os
import random
import re
import shutil
import subprocess
import sys
import tempfile
import time

VERIF = os.path.dirname(os.path.dirname(os.path.dirname(os.path.abspath(__file__))))
REPO = "/repo"

# file -> checks that own it, most specific first (at most three are run)
OWNERS = {
    "text.py": ["C05", "C02", "C09"], "_wrap.py": ["C02", "C07"], "containers.py": ["C02", "C14"],
    "cells.py": ["C13", "C02"], "segment.py": ["C13", "C03", "C08"], "style.py": ["C06", "C03"],
    "color.py": ["C18", "C06", "C14"], "palette.py": ["C18"], "color_triplet.py": ["C18"],
    "markup.py": ["C04", "C14"], "table.py": ["C07", "C01", "C09"], "_ratio.py": ["C07", "C13"],
    "panel.py": ["C08", "C01"], "padding.py": ["C08", "C01"], "align.py": ["C08", "C01"],
    "constrain.py": ["C08", "C01"], "columns.py": ["C08", "C01"], "tree.py": ["C08", "C01"],
    "rule.py": ["C08", "C01"], "bar.py": ["C08", "C09"], "progress_bar.py": ["C08", "C01"],
    "styled.py": ["C08"], "measure.py": ["C09", "C01"], "live.py": ["C10", "C11"],
    "live_render.py": ["C10", "C11"], "status.py": ["C10"], "progress.py": ["C12", "C10", "C11"],
    "file_proxy.py": ["C19", "C11"], "ansi.py": ["C19", "C14"], "console.py": ["C15", "C11", "C03"],
    "pretty.py": ["C16"], "syntax.py": ["C17"], "traceback.py": ["C17"], "theme.py": ["C20"],
    "control.py": ["C05", "C10"], "_loop.py": ["C07", "C08"], "_lru_cache.py": ["C13"], "box.py": ["C07", "C08"],
}
BASELINE_FAILS = [
    "tests/test_card.py::test_card_render", "tests/test_inspect.py::test_inspect_text",
    "tests/test_inspect.py::test_inspect_builtin_function", "tests/test_inspect.py::test_inspect_integer_with_methods",
    "tests/test_log.py::test_log", "tests/test_markdown.py::test_markdown_render", "tests/test_markdown.py::test_inline_code",
    "tests/test_markdown_no_hyperlinks.py::test_markdown_render", "tests/test_syntax.py::test_python_render",
    "tests/test_syntax.py::test_python_render_indent_guides", "tests/test_syntax.py::test_option_no_wrap"]

CMP = {ast.Lt: ("<", "<="), ast.LtE: ("<=", "<"), ast.Gt: (">", ">="), ast.GtE: (">=", ">"),
       ast.Eq: ("==", "!="), ast.NotEq: ("!=", "=="), ast.Is: ("is", "is not"), ast.IsNot: ("is not", "is"),
       ast.In: ("in", "not in"), ast.NotIn: ("not in", "in")}
BIN = {ast.Add: ("+", "-"), ast.Sub: ("-", "+"), ast.Mult: ("*", "//"), ast.FloorDiv: ("//", "*")}
SKIP_FUNCS = {"__repr__", "__rich_repr__", "__str__"}


def seg(src_lines, node):
    """(start_offset, end_offset) of a node in the joined source."""
    return (node.lineno, node.col_offset, node.end_lineno, node.end_col_offset)


class Finder(ast.NodeVisitor):
    def __init__(self, src):
        self.src = src
        self.lines = src.split("\n")
        self.off = [0]
        for l in self.lines:
            self.off.append(self.off[-1] + len(l) + 1)
        self.sites = []      # (kind, start, end, replacement, func, line)
        self.func = []
        self.skip_depth = 0

    def pos(self, lineno, col):
        # col is in utf-8 bytes
        line = self.lines[lineno - 1]
        return self.off[lineno - 1] + len(line.encode("utf-8")[:col].decode("utf-8"))

    def span(self, node):
        return self.pos(node.lineno, node.col_offset), self.pos(node.end_lineno, node.end_col_offset)

    def add(self, kind, start, end, repl, line):
        if self.skip_depth or not self.func:
            return
        self.sites.append({"kind": kind, "start": start, "end": end, "repl": repl, "func": ".".join(self.func), "line": line})

    def visit_If(self, node):
        # `if __name__ == "__main__":` and TYPE_CHECKING blocks are not library behaviour
        t = ast.unparse(node.test)
        if "__name__" in t or "TYPE_CHECKING" in t:
            return
        s, e = self.span(node.test)
        self.add("negate-if", s, e, "not (%s)" % self.src[s:e], node.lineno)
        self.generic_visit(node)

    def visit_While(self, node):
        self.generic_visit(node)

    def visit_FunctionDef(self, node):
        if node.name in SKIP_FUNCS:
            return
        self.func.append(node.name)
        for st in node.body:
            # docstring
            if isinstance(st, ast.Expr) and isinstance(st.value, ast.Constant) and isinstance(st.value.value, str):
                continue
            self.stmt(st)
            self.visit(st)
        self.func.pop()

    visit_AsyncFunctionDef = visit_FunctionDef

    def visit_ClassDef(self, node):
        self.func.append(node.name)
        for st in node.body:
            self.visit(st)
        self.func.pop()

    def stmt(self, st):
        # deletable statements: calls for effect, augmented assignments, attribute / subscript stores
        deletable = False
        if isinstance(st, ast.Expr) and isinstance(st.value, ast.Call):
            deletable = True
        elif isinstance(st, ast.AugAssign):
            deletable = True
        elif isinstance(st, ast.Assign) and all(isinstance(t, (ast.Attribute, ast.Subscript)) for t in st.targets):
            deletable = True
        if deletable:
            s, e = self.span(st)
            self.add("delete-stmt", s, e, "pass", st.lineno)

    def generic_visit(self, node):
        for field, value in ast.iter_fields(node):
            if isinstance(value, list):
                for item in value:
                    if isinstance(item, ast.stmt) and not isinstance(item, (ast.FunctionDef, ast.ClassDef, ast.AsyncFunctionDef)):
                        self.stmt(item)
                    if isinstance(item, ast.AST):
                        self.visit(item)
            elif isinstance(value, ast.AST):
                self.visit(value)

    def visit_Assert(self, node):
        return

    def visit_Raise(self, node):
        return

    def visit_AnnAssign(self, node):
        if node.value is not None:
            self.visit(node.value)

    def visit_arguments(self, node):
        # default values, not annotations
        for d in list(node.defaults) + [d for d in node.kw_defaults if d is not None]:
            self.visit(d)

    def visit_Compare(self, node):
        if len(node.ops) == 1 and type(node.ops[0]) in CMP:
            old, new = CMP[type(node.ops[0])]
            s = self.span(node.left)[1]
            e = self.span(node.comparators[0])[0]
            between = self.src[s:e]
            m = re.search(r"(?<![<>=!])" + re.escape(old) + r"(?![=])", between) if old[0] in "<>=!" else re.search(r"\b" + old.replace(" ", r"\s+") + r"\b", between)
            if m:
                self.add("cmp %s->%s" % (old, new), s + m.start(), s + m.end(), new, node.lineno)
        self.generic_visit(node)

    def visit_BinOp(self, node):
        if type(node.op) in BIN and not any(isinstance(x, (ast.JoinedStr,)) or (isinstance(x, ast.Constant) and isinstance(x.value, (str, bytes)))
                                            for x in (node.left, node.right)):
            old, new = BIN[type(node.op)]
            s = self.span(node.left)[1]
            e = self.span(node.right)[0]
            between = self.src[s:e]
            i = between.find(old)
            if i >= 0 and between.count(old) == 1 and not (old == "*" and "**" in between) and not (old == "//" and False):
                self.add("arith %s->%s" % (old, new), s + i, s + i + len(old), new, node.lineno)
        self.generic_visit(node)

    def visit_BoolOp(self, node):
        old, new = ("and", "or") if isinstance(node.op, ast.And) else ("or", "and")
        s = self.span(node.values[0])[1]
        e = self.span(node.values[1])[0]
        between = self.src[s:e]
        m = re.search(r"\b%s\b" % old, between)
        if m:
            self.add("bool %s->%s" % (old, new), s + m.start(), s + m.end(), new, node.lineno)
        self.generic_visit(node)

    def visit_UnaryOp(self, node):
        if isinstance(node.op, ast.Not):
            s, e = self.span(node)
            os_, oe = self.span(node.operand)
            self.add("drop-not", s, e, "(%s)" % self.src[os_:oe], node.lineno)
        self.generic_visit(node)

    def visit_Constant(self, node):
        if isinstance(node.value, bool):
            s, e = self.span(node)
            self.add("bool-const", s, e, "False" if node.value else "True", node.lineno)
        elif isinstance(node.value, int) and abs(node.value) <= 1000:
            s, e = self.span(node)
            for v in ({node.value + 1, node.value - 1} if node.value else {1}):
                if v >= 0 or node.value <= 0:
                    self.add("int %d->%d" % (node.value, v), s, e, str(v), node.lineno)

    def visit_Name(self, node):
        if node.id in ("min", "max") and isinstance(node.ctx, ast.Load):
            s, e = self.span(node)
            self.add("%s->%s" % (node.id, "max" if node.id == "min" else "min"), s, e, "max" if node.id == "min" else "min", node.lineno)

    def visit_IfExp(self, node):
        s, e = self.span(node.test)
        self.add("negate-ifexp", s, e, "not (%s)" % self.src[s:e], node.lineno)
        self.generic_visit(node)


def mutants_of(fname, src):
    tree = ast.parse(src)
    f = Finder(src)
    f.visit(tree)
    out = []
    for site in f.sites:
        new = src[:site["start"]] + site["repl"] + src[site["end"]:]
        if new == src:
            continue
        try:
            compile(new, fname, "exec")
        except SyntaxError:
            continue
        line_no = site["line"]
        out.append({"file": fname, "kind": site["kind"], "func": site["func"], "line": line_no,
                    "before": src[site["start"]:site["end"]][:80], "after": site["repl"][:80],
                    "start": site["start"], "end": site["end"], "repl": site["repl"]})
    return out


def make_scratch(m, with_tests):
    scratch = tempfile.mkdtemp(prefix="rv-sweep-")
    shutil.copytree(os.path.join(REPO, "rich"), os.path.join(scratch, "rich"))
    os.makedirs(os.path.join(scratch, "docs", "source", "appendix"))
    shutil.copy(os.path.join(REPO, "docs/source/appendix/colors.rst"), os.path.join(scratch, "docs/source/appendix/colors.rst"))
    shutil.copy(os.path.join(REPO, "docs/source/style.rst"), os.path.join(scratch, "docs/source/style.rst"))
    if with_tests:
        shutil.copytree(os.path.join(REPO, "tests"), os.path.join(scratch, "tests"))
        for extra in ("README.md", "pyproject.toml", "setup.cfg"):
            if os.path.exists(os.path.join(REPO, extra)):
                shutil.copy(os.path.join(REPO, extra), os.path.join(scratch, extra))
    path = os.path.join(scratch, "rich", m["file"])
    src = open(path, encoding="utf-8").read()
    new = src[:m["start"]] + m["repl"] + src[m["end"]:]
    open(path, "w", encoding="utf-8").write(new)
    return scratch


def phase1_one(m):
    scratch = make_scratch(m, True)
    try:
        env = dict(os.environ, PYTHONPATH=scratch, PYTHONDONTWRITEBYTECODE="1")
        env.pop("RICH_VERIF", None)
        r = subprocess.run([sys.executable, "-B", "-c", "import rich.console, rich.table, rich.progress, rich.syntax, rich.live, rich.pretty, rich.traceback, rich.columns, rich.tree, rich.status"],
                           capture_output=True, text=True, env=env, cwd=scratch, timeout=120)
        if r.returncode != 0:
            return dict(m, tests="does-not-import")
        cmd = [sys.executable, "-B", "-m", "pytest", "-q", "-x", "-p", "no:cacheprovider", "--timeout=30"]
        for d in BASELINE_FAILS:
            cmd += ["--deselect", d]
        try:
            r = subprocess.run(cmd, capture_output=True, text=True, env=env, cwd=scratch, timeout=300)
        except subprocess.TimeoutExpired:
            return dict(m, tests="timeout")
        tail = (r.stdout.strip().splitlines() or [""])[-1]
        if r.returncode == 0 and " passed" in tail and "failed" not in tail:
            # the deselected baseline failures must still be exactly those failures
            cmd2 = [sys.executable, "-B", "-m", "pytest", "-q", "-p", "no:cacheprovider", "--timeout=60"] + BASELINE_FAILS
            r2 = subprocess.run(cmd2, capture_output=True, text=True, env=env, cwd=scratch, timeout=300)
            t2 = (r2.stdout.strip().splitlines() or [""])[-1]
            if "11 failed" in t2 and "passed" not in t2:
                return dict(m, tests="unchanged")
            return dict(m, tests="baseline-set-changed", tail=t2[-120:])
        return dict(m, tests="killed", tail=tail[-120:])
    finally:
        shutil.rmtree(scratch, ignore_errors=True)


def phase2_one(m, budget):
    scratch = make_scratch(m, False)
    try:
        res = []
        for chk in OWNERS.get(m["file"], [])[:3]:
            t0 = time.time()
            try:
                r = subprocess.run([sys.executable, "-B", os.path.join(VERIF, "rv", "run.py"), chk, "--tier", "quick", "--no-evidence"] + (["--budget", str(budget)] if budget else []),
                                   capture_output=True, text=True, cwd=VERIF, env=dict(os.environ, RV_REPO=scratch), timeout=1500)
                code, out = r.returncode, r.stdout
            except subprocess.TimeoutExpired:
                code, out = "timeout", ""
            mechs = sorted({l.split("mechanism:")[1].split("(")[0].strip() for l in out.splitlines() if "mechanism:" in l})
            res.append({"check": chk, "exit": code, "mechanisms": mechs[:4], "wall": round(time.time() - t0, 1)})
            if code == 1:
                break
        return dict(m, checks=res, caught=any(r["exit"] == 1 for r in res))
    finally:
        shutil.rmtree(scratch, ignore_errors=True)


def main():
    ap = argparse.ArgumentParser()
    ap.add_argument("--out", required=True)
    ap.add_argument("--seed", type=int, default=0)
    ap.add_argument("--per-file", type=int, default=12)
    ap.add_argument("--files", default="")
    ap.add_argument("--jobs", type=int, default=8)
    ap.add_argument("--phase", default="12")
    ap.add_argument("--budget", type=float, default=0)
    a = ap.parse_args()
    os.makedirs(a.out, exist_ok=True)
    mpath, rpath = os.path.join(a.out, "mutants.jsonl"), os.path.join(a.out, "results.jsonl")
    if "1" in a.phase:
        rng = random.Random(a.seed)
        files = [f for f in a.files.split(",") if f] or sorted(OWNERS)
        chosen = []
        for f in files:
            p = os.path.join(REPO, "rich", f)
            if not os.path.exists(p):
                continue
            ms = mutants_of(f, open(p, encoding="utf-8").read())
            rng.shuffle(ms)
            # spread over functions: at most two per function first
            per_func, pick = {}, []
            for m in ms:
                if per_func.get(m["func"], 0) < 2:
                    per_func[m["func"]] = per_func.get(m["func"], 0) + 1
                    pick.append(m)
            chosen += pick[:a.per_file]
            print("%-18s %4d sites, %3d chosen" % (f, len(ms), len(pick[:a.per_file])), flush=True)
        with cf.ThreadPoolExecutor(a.jobs) as ex, open(mpath, "w") as out:
            for res in ex.map(phase1_one, chosen):
                out.write(json.dumps(res, ensure_ascii=False) + "\n")
                out.flush()
        rows = [json.loads(l) for l in open(mpath)]
        from collections import Counter
        print("phase 1:", dict(Counter(r["tests"] for r in rows)), flush=True)
    if "2" in a.phase:
        rows = [json.loads(l) for l in open(mpath) if json.loads(l)["tests"] == "unchanged"]
        done = set()
        if os.path.exists(rpath):
            done = {(r["file"], r["start"], r["repl"]) for r in map(json.loads, open(rpath))}
        with open(rpath, "a") as out:
            for m in rows:
                if (m["file"], m["start"], m["repl"]) in done:
                    continue
                res = phase2_one(m, a.budget)
                out.write(json.dumps(res, ensure_ascii=False) + "\n")
                out.flush()
                print("%s %-16s L%-4d %-14s %-28s %r -> %r   %s" % ("CAUGHT  " if res["caught"] else "SURVIVED", m["file"], m["line"], m["kind"], m["func"][-28:],
                                                                  m["before"][:30], m["after"][:30], [(c["check"], c["exit"]) for c in res["checks"]]), flush=True)
        rows = [json.loads(l) for l in open(rpath)]
        print("phase 2: %d/%d caught" % (sum(r["caught"] for r in rows), len(rows)), flush=True)


if __name__ == "__main__":
    main()
