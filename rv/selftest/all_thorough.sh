#!/bin/bash
# Runs every check's thorough tier once (no evidence written), sequentially; prints one summary line each.
cd "$(dirname "$0")/../.."
for c in C01 C02 C03 C04 C05 C06 C07 C08 C09 C10 C11 C12 C13 C14 C15 C16 C17 C18 C19 C20; do
  VERIF_SEED=${VERIF_SEED:-0} /venv/bin/python -B rv/run.py $c --tier thorough --no-evidence ${RV_BUDGET_ARG} 2>&1 | grep -E "mechanism|^$c |INCONC|KNOWN" | cut -c1-220
done
