#!/venv/bin/python
"""record_fix.py <Cxx> <key> <commit> <match> <what_fails> <line-text> [<found-by note>]
Appends a `fixed` entry to known_findings.json and a row to the defect table of DESIGN.md (section 5)."""
import json
import sys


def main():
    pid, key, commit, match, what, line = sys.argv[1:7]
    note = sys.argv[7] if len(sys.argv) > 7 else ""
    p = "/verif/known_findings.json"
    d = json.load(open(p))
    d["findings"].append({"property": pid, "key": key, "status": "fixed", "commit": commit, "match": match,
                          "what_fails": what, "line": "fixed: property=%s %s %s" % (pid, commit, line)})
    json.dump(d, open(p, "w"), indent=1, ensure_ascii=False)
    s = open("/verif/DESIGN.md").read()
    rows = [i for i, l in enumerate(s.split("\n")) if l.startswith("| C") and ("| fixed " in l or "| **known** |" in l)]
    lines = s.split("\n")
    # insert after the last row of the first contiguous defect table block that contains audit rows
    anchor = max(i for i in rows if i < [j for j, l in enumerate(lines) if l.startswith("## 6")][0])
    row = "| %s | %s | fixed %s | %s | %s%s |" % (pid, key, commit, ", ".join("`%s`" % m for m in match.split(",")), what.replace("|", "\\|"),
                                                 (" (%s)" % note) if note else "")
    lines.insert(anchor + 1, row)
    open("/verif/DESIGN.md", "w").write("\n".join(lines))
    print("recorded", key)


if __name__ == "__main__":
    main()
