#!/venv/bin/python
"""Regression over the kept seeded changes: applies seeded/<name>/patch.diff to a scratch copy of /repo (rich/, docs
tables, tests/), runs the owning quick check against it (RV_REPO) and expects exit 1.  usage: reseed.py [name ...]"""
import json
import os
import shutil
import subprocess
import sys
import tempfile

VERIF = os.path.dirname(os.path.dirname(os.path.dirname(os.path.abspath(__file__))))


def main():
    names = sys.argv[1:] or sorted(os.listdir(os.path.join(VERIF, "seeded")))
    rows = []
    for name in names:
        d = os.path.join(VERIF, "seeded", name)
        meta = json.load(open(os.path.join(d, "meta.json")))
        if meta.get("not_kept"):
            print(name, "skipped (recorded, not a live seed: %s)" % meta["not_kept"], flush=True)
            continue
        if meta.get("neutralised_by_fix"):
            # a later repair of the repository removed the situation this change relied on: it no longer breaks anything
            print(name, "skipped (neutralised by fix %s)" % meta["neutralised_by_fix"], flush=True)
            continue
        scratch = tempfile.mkdtemp(prefix="rv-seed-")
        try:
            shutil.copytree("/repo/rich", os.path.join(scratch, "rich"))
            os.makedirs(os.path.join(scratch, "docs", "source", "appendix"))
            shutil.copy("/repo/docs/source/appendix/colors.rst", os.path.join(scratch, "docs/source/appendix/colors.rst"))
            shutil.copy("/repo/docs/source/style.rst", os.path.join(scratch, "docs/source/style.rst"))
            r = subprocess.run(["patch", "-p1", "-s", "-d", scratch, "-i", os.path.join(d, "patch.diff")],
                               capture_output=True, text=True)
            if r.returncode != 0:
                rows.append((name, "patch-does-not-apply", r.stdout[-200:]))
                print(name, "PATCH DOES NOT APPLY", r.stdout[-200:].replace("\n", " "), flush=True)
                continue
            # (a change seeded for one property may only be visible to the check of another: C15-6 needs two threads,
            # which are C11's subject - the meta file names the check that is expected to catch it)
            r = subprocess.run([sys.executable, "-B", os.path.join(VERIF, "rv", "run.py"), meta.get("caught_by_check", meta["property"]), "--tier", "quick",
                                "--no-evidence"], capture_output=True, text=True, cwd=VERIF,
                               env=dict(os.environ, RV_REPO=scratch), timeout=1800)
            mechs = sorted({l.split("mechanism:")[1].split("(")[0].strip() for l in r.stdout.splitlines() if "mechanism:" in l})
            rows.append((name, "caught" if r.returncode == 1 else "MISSED exit=%d" % r.returncode, mechs[:3]))
            print(name, rows[-1][1], mechs[:3], flush=True)
        finally:
            shutil.rmtree(scratch, ignore_errors=True)
    print("SUMMARY: %d/%d caught" % (sum(1 for r in rows if r[1] == "caught"), len(rows)))


if __name__ == "__main__":
    main()
