#!/bin/bash
# Second-opinion run: every kept seed under another VERIF_SEED (detection must not depend on the seed), then the
# whole mutant catalogue.  Exit status 0 iff everything was caught.
cd "$(dirname "$0")/../.."
rc=0
VERIF_SEED=${RESEED_SEED:-1} /venv/bin/python -B rv/selftest/reseed.py || rc=1
/venv/bin/python -B rv/selftest/mutants.py || rc=1
exit $rc
