#!/bin/bash
# Usage: eval_seed.sh <Cxx> <worktree> [name]
# Confirms a seeded breaking change independently (demo fails with it / passes without it, repo tests
# still 430 pass), then runs the registered quick check against the worktree (RV_REPO) and reports.
ID=$1; WT=$2; NAME=${3:-$ID-1}
cd $WT || exit 2
# the agent's own patch.diff is the truth (worktrees can be disturbed by other agents through the shared stash)
if [ -s patch.diff ]; then git checkout -q -- rich && git apply patch.diff || { echo "patch.diff does not apply"; exit 2; }
else git diff -- rich > patch.diff; fi
[ -s patch.diff ] || { echo "no patch"; exit 2; }
echo "patch touches: $(grep '^+++ ' patch.diff | tr '\n' ' ')"
DEMO=$(ls demo_*.py | head -1)
echo "== demo with patch"; PYTHONPATH=$WT timeout 300 /venv/bin/python $DEMO >/tmp/mut/$NAME.with.log 2>&1; W=$?; echo "exit=$W"
# (no `git stash`: the stash is shared by all worktrees of a repository and other agents may be using it)
git apply -R patch.diff || { echo "cannot reverse patch"; exit 2; }
echo "== demo without patch"; PYTHONPATH=$WT timeout 300 /venv/bin/python $DEMO >/tmp/mut/$NAME.without.log 2>&1; WO=$?; echo "exit=$WO"
git apply patch.diff || { echo "cannot re-apply patch"; exit 2; }
echo "== repo tests with patch"; PYTHONPATH=$WT timeout 900 /venv/bin/python -m pytest -q -p no:cacheprovider --timeout=900 2>&1 | tail -1
echo "== check $ID quick against the patched tree"
cd /verif; RV_REPO=$WT timeout 900 /venv/bin/python -B rv/run.py $ID --tier quick --no-evidence > /tmp/mut/$NAME.check.log 2>&1; C=$?
grep -E "mechanism|^$ID " /tmp/mut/$NAME.check.log | head -8 | cut -c1-200
echo "check exit=$C (1 = caught)"
