"""C10 - Live and progress displays leave a correct screen after any history."""
import io
import sys

from rv.core.runner import WL, exc_mechanism
from rv.model import sgr, term

ID = "C10"
LEVEL = "fault_enumeration"
RULE = ("(1) random histories (<=40 operations) over {print, log, python print() through the redirect, "
        "update(renderable, refresh?), refresh, add/advance/hide/show/remove task, start, stop} on {Live, Progress, "
        "Status} x transient x vertical_overflow x widths 20-100 x screen heights 3-12, frames with unique line tokens "
        "that grow, shrink, become empty, reach and exceed the screen height; every byte written is replayed on a "
        "VT100-subset screen model and the transcript is compared after EVERY operation; (2) fault enumeration: for "
        "shorter histories the render calls R and body operations B of a fault-free run are counted and the history "
        "is re-run R+B times with an exception injected at render call k / after operation j (including renders inside "
        "start()), checking propagation and restoration of cursor, stdout/stderr, render hook and buffer nesting. "
        "Non-trivial: >=3 frame redraws with a height change and >=2 prints; distinct by history / (history, fault point).")
ASSUMPTIONS = ["auto_refresh is off here (deterministic); threaded refresh is C11's subject",
               "user prints end in a newline (the property speaks of printed lines)",
               "a frame taller than the screen under vertical_overflow='visible' cannot be cleared (documented): the "
               "no-remnant clause is not asserted after such a frame was drawn",
               "the terminal is modelled as xterm with ONLCR (rv/model/term.py)"]
REQUIRED = ["mon.recovery_after_fault", "mon.transcript", "mon.cursor_visible_after_stop", "mon.fault_runs", "mon.cleanup_after_fault",
            "mon.screen_bytes"]
MIN_NONTRIVIAL = {"quick": 300, "thorough": 20000}


class TTY(io.StringIO):
    def isatty(self):
        return True


class Boom(Exception):
    pass


class Interrupt(KeyboardInterrupt):
    """An injected exception that does not derive from Exception (what Ctrl-C raises)."""


FAULT = [Boom]


class Clock:
    def __init__(self):
        self.t = 100.0

    def __call__(self):
        return self.t


DETECTED = [None]        # what the (emulated) terminal reports as its size: (columns, lines) or None = not a tty
_size_patched = [False]


def _emulate_terminal_size():
    """os.get_terminal_size answers from DETECTED for the rest of this process (a shard runs one session at a time):
    the console then learns its size the way it does on a real terminal."""
    if _size_patched[0]:
        return
    import os

    def get_terminal_size(fd=1):
        if DETECTED[0] is None:
            raise OSError("not a terminal (emulated)")
        return os.terminal_size(DETECTED[0])
    os.get_terminal_size = get_terminal_size
    _size_patched[0] = True


def make_console(width, height, clock=None, size_source="args"):
    """size_source: where the console learns its size from - 'args' (width= and height=), 'width+detected' (width=
    only, the height from the terminal), 'detected' (both from the terminal).  (This release does not read
    COLUMNS / LINES.)"""
    from rich.console import Console
    import datetime
    _emulate_terminal_size()
    kw = {"width": width, "height": height}      # (an 'args' console never asks the terminal: DETECTED is left alone)
    environ = {}
    if size_source == "width+detected":
        kw = {"width": width}
        DETECTED[0] = (width + 7, height)
    elif size_source == "detected":
        kw = {}
        DETECTED[0] = (width, height)
    return Console(file=TTY(), force_terminal=True, color_system="truecolor",
                   legacy_windows=False, _environ=environ, log_path=False, get_time=clock or Clock(),
                   get_datetime=lambda: datetime.datetime(2021, 1, 2, 3, 4, 5), **kw)


def plain_lines(width, renderables):
    """Visible lines of printing the renderables on a plain (no live) console of the same width."""
    c = make_console(width, 1000)
    for r in renderables:
        c.print(r)
    text = sgr.decode(c.file.getvalue()).text
    lines = text.split("\n")
    if lines and lines[-1] == "":
        lines.pop()
    return [l.rstrip() for l in lines]


class Flaky:
    """A frame renderable that raises at its k-th render (k counted over the whole run)."""
    counter = [0]
    fail_at = [None]

    def __init__(self, lines):
        self.lines = lines

    def __rich_console__(self, console, options):
        Flaky.counter[0] += 1
        if Flaky.fail_at[0] is not None and Flaky.counter[0] == Flaky.fail_at[0]:
            raise FAULT[0]("render %d" % Flaky.counter[0])
        from rich.text import Text
        yield Text("\n".join(self.lines))


def frame_lines(rng, tag, height_hint):
    n = rng.choice([0, 1, 1, 2, 3, height_hint - 1, height_hint, height_hint + 1, height_hint + 3])
    n = max(0, n)
    lines = ["%s-%d" % (tag, i) for i in range(n)]
    if lines and rng.random() < 0.1:
        # one line of the frame is a sentence longer than the terminal is wide: it is folded onto further rows
        k = rng.randrange(len(lines))
        lines[k] = lines[k] + " " + " ".join("w%d" % j for j in range(rng.choice([12, 25])))
    return lines


def gen_history(rng, kind, H, n_ops):
    """A list of op specs (plain data)."""
    ops = []
    fi = 0
    pi = 0
    ntasks = 0
    for _ in range(n_ops):
        r = rng.random()
        if r < 0.30:
            pi += 1
            ops.append(["print", ["p%d-%d" % (pi, k) for k in range(rng.choice([1, 1, 2, 3]))]])
            if rng.random() < 0.12:
                # the same print with one of the documented variations that do not change what a short line looks
                # like: soft wrapping, Console.out(), no cropping
                ops[-1].append(rng.choice(["soft_wrap", "out", "crop_false"]))
        elif r < 0.34:
            pi += 1
            ops.append(["log", "l%d" % pi])
        elif r < 0.355:
            ops.append(["print_empty", rng.choice(["print", "print", "log"])])
        elif r < 0.36:
            ops.append(["line", rng.choice([1, 1, 2])])
        elif r < 0.42:
            pi += 1
            ops.append(["pyprint", "y%d" % pi, rng.choice(["stdout", "stderr"])])
            if rng.random() < 0.2:
                # one write of several lines with blank lines among them and at its end
                ops[-1].append(rng.choice(["a\n\nb", "a\n\n", "a\n\n\nb", "\na"]))
        elif r < 0.44:
            pi += 1
            ops.append(["pywrite", "w%d" % pi, rng.choice(["stdout", "stderr"])])
        elif r < 0.50:
            ops.append(["refresh"])
        elif r < 0.54:
            ops.append(["stop"])
        elif r < 0.58:
            ops.append(["start"])
        elif kind == "live":
            fi += 1
            # (the last flag: the frame is a text that is NOT folded - no_wrap, overflow "ignore" - its long lines are
            # cut at the terminal's edge)
            ops.append(["update", frame_lines(rng, "f%d" % fi, H), rng.random() < 0.6, rng.random() < 0.4])
        elif kind == "status":
            fi += 1
            ops.append(["status", "s%d" % fi])
        else:
            rr = rng.random()
            if rr < 0.3 or ntasks == 0:
                # descriptions of very different lengths: the frame's width changes as tasks come and go
                desc = "t%d" % ntasks + rng.choice(["", "", " " + "x" * rng.randint(1, 8), " a rather long description " + "y" * rng.randint(0, 30)])
                ops.append(["add_task", desc, rng.choice([100, 10, 0]), rng.random() < 0.85])
                ntasks += 1
            elif rr < 0.6:
                ops.append(["advance", rng.randrange(ntasks), rng.choice([1, 5, 50, 200])])
            elif rr < 0.75:
                ops.append(["visible", rng.randrange(ntasks), rng.random() < 0.5])
            elif rr < 0.85:
                ops.append(["remove_task", rng.randrange(ntasks)])
            elif rr < 0.93:
                ops.append(["update_refresh", rng.randrange(ntasks), rng.choice([1, 10])])
            else:
                # the other task changes a program makes: a new description (the frame's width changes), a new total,
                # reset, stop / start of one task - with or without an immediate refresh
                what = rng.choice([["description", rng.choice(["d", "a much longer description " + "z" * rng.randint(0, 25), ""])],
                                   ["total", rng.choice([0, 1, 50, 1000])], ["reset"], ["stop_task"], ["start_task"]])
                ops.append(["task_change", rng.randrange(ntasks), what, rng.random() < 0.5])
    return ops


class Session:
    """Runs one history against a real Live / Progress / Status and the screen model."""

    def __init__(self, ctx, kind, cfg, flaky=False):
        self.ctx = ctx
        self.kind = kind
        self.cfg = cfg
        self.W, self.H = cfg["width"], cfg["height"]
        self.clock = Clock()
        self.console = make_console(self.W, self.H, self.clock, cfg.get("size_source", "args"))
        if tuple(self.console.size) != (self.W, self.H):
            ctx.violation("console-size-differs-from-its-source:%s" % cfg.get("size_source", "args"),
                          {"config": cfg, "size": tuple(self.console.size)})
        self.screen = term.Screen(self.W, self.H)
        self.fed = 0
        self.printed = []           # expected printed lines, in order
        self.twin_ops = []          # renderables printed so far (for the expected lines)
        self.frame = None           # expected frame lines currently on screen (None = nothing drawn)
        self.current = []           # lines of the current renderable (Live)
        self.started = False
        self.exempt = False
        self.flaky = flaky
        self.removed = set()
        self.redraws = 0
        self.heights = set()
        self.full_height_transient_stop = False
        self.pending = {}
        self.flushed_at_stop = False
        self.obj = self._make()

    def _redirect_kw(self):
        """Which of the two streams the display redirects (both by default; a program may keep one for itself)."""
        r = self.cfg.get("redirect", "both")
        if r == "both":
            return {}
        return {"redirect_stdout": r == "stdout", "redirect_stderr": r == "stderr"}

    def _redirected(self, name):
        return self.kind == "status" or self.cfg.get("redirect", "both") in ("both", name)

    def _make(self):
        from rich.live import Live
        from rich.progress import Progress
        from rich.status import Status
        if self.kind == "live":
            return Live(self._frame_obj([]), console=self.console, auto_refresh=False,
                        transient=self.cfg["transient"], vertical_overflow=self.cfg["overflow"], **self._redirect_kw())
        if self.kind == "progress":
            cols = ()
            if self.flaky:
                from rich.progress import BarColumn, TextColumn, ProgressColumn
                from rich.text import Text

                class FlakyColumn(ProgressColumn):
                    def render(self_inner, task):
                        Flaky.counter[0] += 1
                        if Flaky.fail_at[0] is not None and Flaky.counter[0] == Flaky.fail_at[0]:
                            raise FAULT[0]("column render %d" % Flaky.counter[0])
                        return Text("c%d" % task.id)
                cols = (TextColumn("{task.description}"), BarColumn(bar_width=10), FlakyColumn())
            return Progress(*cols, console=self.console, auto_refresh=False, transient=self.cfg["transient"],
                            get_time=self.clock, **self._redirect_kw())
        st = Status("s0", console=self.console)
        st._live.auto_refresh = False
        return st

    def _frame_obj(self, lines):
        from rich.text import Text
        if self.flaky:
            return Flaky(lines)
        if getattr(self, "rigid", False):
            return Text("\n".join(lines), no_wrap=True, overflow="ignore")
        return Text("\n".join(lines))

    # expected frame as it should appear (cropped / ellipsised)
    def _expected_frame(self, final=False):
        if self.kind == "live":
            lines = plain_lines(self.W, [self._frame_obj_plain(self.current)])
            overflow = "visible" if final else self.cfg["overflow"]
        elif self.kind == "progress":
            # the frame a Progress shows is the renderable it built at its last refresh (a static snapshot:
            # later task changes do not show until the next refresh)
            lines = plain_lines(self.W, [self.obj._live_render.renderable])
            if not lines:
                lines = [""]
            # LiveRender keeps the largest height seen since start() (the frame never shrinks; it is padded
            # with blank rows) - blank rows are not remnants
            self.max_h = max(getattr(self, "max_h", 0), len(lines))
            lines = lines + [""] * (self.max_h - len(lines))
            overflow = "visible"
        else:
            lines = plain_lines(self.W, [self.obj.renderable])
            overflow = "visible" if final else "ellipsis"
        if not lines:
            lines = [""]
        if len(lines) > self.H:
            if overflow == "crop":
                lines = lines[:self.H]
            elif overflow == "ellipsis":
                from rich.text import Text
                dots = plain_lines(self.W, [Text("...", overflow="crop", justify="center", end="")])
                lines = lines[:self.H - 1] + [dots[0] if dots else "..."]
            else:
                # the whole frame is drawn although the screen is shorter: what scrolls out of the screen cannot be
                # erased again (the documentation says so for "visible"; a Progress has no other way)
                self.exempt = True
                self.tall_frame = True
        return lines

    def _frame_obj_plain(self, lines):
        from rich.text import Text
        if getattr(self, "rigid", False):
            return Text("\n".join(l[:self.W] for l in lines))      # (ASCII frames: one character per cell)
        return Text("\n".join(lines))

    def feed(self):
        data = self.console.file.getvalue()
        new = data[self.fed:]
        self.fed = len(data)
        self.screen.feed(new)
        self.ctx.count("mon.screen_bytes", len(new))

    def live_on(self):
        return self.started and self.console.is_terminal

    def _drew(self, final=False):
        self.frame = self._expected_frame(final)
        self.redraws += 1
        self.heights.add(len(self.frame))

    def apply(self, op):
        k = op[0]
        c = self.console
        if k == "print":
            from rich.text import Text
            r = Text("\n".join(op[1]))
            how = op[2] if len(op) > 2 else None
            if how == "soft_wrap":
                c.print(r, soft_wrap=True)
            elif how == "out":
                c.out("\n".join(op[1]), highlight=False)
            elif how == "crop_false":
                c.print(r, crop=False)
            else:
                c.print(r)
            self.printed += plain_lines(self.W, [Text("\n".join(op[1]))])
            if self.live_on():
                self._drew()
        elif k == "print_empty":
            # print() / log() without arguments: a blank line, like any other printed line
            c.print() if op[1] == "print" else c.log()
            self.printed.append("")
            if self.live_on():
                self._drew()
        elif k == "line":
            # Console.line(n): n blank lines, printed like any other line
            c.line(op[1])
            self.printed += [""] * op[1]
            if self.live_on():
                self.line_while_live = True
                self._drew()
        elif k == "log":
            c.log(op[1])
            # expected through a twin that has seen the same log history (LogRender omits repeated timestamps)
            self._twin_log(op[1])
            if self.live_on():
                self._drew()
        elif k == "pywrite":
            # a fragment without a line end (print(..., end="")): it waits in the redirect until its line is
            # completed, or until the display stops
            stream = sys.stdout if op[2] == "stdout" else sys.stderr
            if self.live_on() and self._redirected(op[2]):
                stream.write(op[1])
                self.pending[op[2]] = self.pending.get(op[2], "") + op[1]
        elif k == "pyprint":
            stream = sys.stdout if op[2] == "stdout" else sys.stderr
            if self.live_on() and self._redirected(op[2]):
                if len(op) > 3:
                    parts = [op[1] + x if x else "" for x in op[3].split("\n")]
                    stream.write("\n".join(parts) + "\n")
                    parts[0] = self.pending.pop(op[2], "") + parts[0]
                    self.printed += parts
                else:
                    stream.write(op[1] + "\n")
                    self.printed.append(self.pending.pop(op[2], "") + op[1])
                self._drew()
            # (when no live display is running, stdout is the real one: nothing to do)
        elif k == "refresh":
            if self.kind == "status":
                self.obj._live.refresh()
            else:
                self.obj.refresh()
            if self.live_on():
                self._drew()
        elif k == "update":
            self.current = list(op[1])
            self.rigid = bool(len(op) > 3 and op[3] and any(len(l) > self.W for l in op[1]))
            self.obj.update(self._frame_obj(op[1]), refresh=op[2])
            if op[2] and self.live_on():
                self._drew()
        elif k == "status":
            self.obj.update(op[1])
            if self.live_on():
                self._drew()
        elif k == "start":
            was = self.started
            if not was:
                self.max_h = 0
            self.obj.start()
            self.started = True
            if not was and self.kind == "progress":
                self._drew()
        elif k == "stop":
            was = self.started
            self.obj.stop()
            self.started = False
            if was:
                # fragments still waiting in the redirected streams are handed over as lines of their own, above
                # the final frame (stdout's first)
                for name in ("stdout", "stderr"):
                    frag = self.pending.pop(name, "")
                    if frag:
                        self.printed.append(frag)
                        self.flushed_at_stop = True
                # stop() draws the display once more, in full ("visible") - except a transient display, which is erased
                # next and therefore keeps its own way of fitting the screen
                going = self.cfg["transient"] or self.kind == "status"
                final = self._expected_frame(final=not going)
                self.heights.add(len(final))
                if self.cfg["transient"] or self.kind == "status":
                    if len(final) > self.H:
                        self.exempt = True
                        self.tall_frame = True
                    elif len(final) == self.H:
                        # the frame fills the screen and stop() adds one more line before clearing upwards
                        self.full_height_transient_stop = True
                    self.frame = None
                else:
                    # the final frame stays on screen and becomes ordinary scrollback
                    self.printed += final
                    self.frame = None
        elif k == "add_task":
            self.obj.add_task(op[1], total=op[2], visible=op[3])
            if self.live_on():
                self._drew()
        elif k in ("advance", "visible", "remove_task", "update_refresh", "task_change"):
            tid = op[1]
            if tid in self.removed or tid not in self.obj._tasks:
                return
            if k == "advance":
                self.clock.t += 1.0
                self.obj.advance(tid, op[2])
            elif k == "visible":
                self.obj.update(tid, visible=op[2])
            elif k == "remove_task":
                self.obj.remove_task(tid)
                self.removed.add(tid)
            elif k == "task_change":
                what = op[2]
                self.clock.t += 0.25
                if what[0] == "description":
                    self.obj.update(tid, description=what[1], refresh=op[3])
                elif what[0] == "total":
                    self.obj.update(tid, total=what[1], refresh=op[3])
                elif what[0] == "reset":
                    self.obj.reset(tid)
                    if op[3]:
                        self.obj.refresh()
                elif what[0] == "stop_task":
                    self.obj.stop_task(tid)
                else:
                    self.obj.start_task(tid)
                if self.live_on() and (op[3] and what[0] in ("description", "total", "reset") or what[0] == "reset"):
                    self._drew()
            else:
                self.clock.t += 0.5
                self.obj.update(tid, advance=op[2], refresh=True)
                if self.live_on():
                    self._drew()

    def _twin_log(self, msg):
        if not hasattr(self, "_twin"):
            self._twin = make_console(self.W, 1000, Clock())
        before = len(self._twin.file.getvalue())
        self._twin.log(msg)
        text = sgr.decode(self._twin.file.getvalue()[before:]).text
        lines = text.split("\n")
        if lines and lines[-1] == "":
            lines.pop()
        self.printed += [l.rstrip() for l in lines]

    def expected(self):
        exp = list(self.printed)
        if self.frame is not None:
            exp += self.frame
        while exp and not exp[-1].strip():
            exp.pop()
        return [l.rstrip() for l in exp]

    def check(self, log, op):
        self.feed()
        self.ctx.count("mon.transcript")
        if self.screen.unknown:
            self.ctx.mark_inconclusive("screen model met an unknown sequence %r" % self.screen.unknown[:2])
            return False
        if self.exempt:
            if getattr(self, "tall_frame", False) and not getattr(self, "tall_reported", False):
                # a frame taller than the screen under "visible" overflow (every Progress frame is drawn that way): the
                # statement lists such frames, the library cannot clear them.  Reported once per history, when it shows,
                # under a mechanism of its own; nothing further is asserted for this history.
                got, want = self.screen.lines(), self.expected()
                if got != want or self.screen.cursor_above_top:
                    self.tall_reported = True
                    self.ctx.violation("frame-taller-than-the-screen-cannot-be-cleared:%s" % self.kind,
                                       {"config": self.cfg, "kind": self.kind, "log": log, "after": op,
                                        "screen": got[-30:], "expected": want[-30:],
                                        "cursor_up_clamped_at_viewport_top": self.screen.cursor_above_top})
            return True
        got = self.screen.lines()
        want = self.expected()
        if got != want:
            kind = "screen-differs-from-printed-lines-plus-last-frame"
            if getattr(self, "line_while_live", False):
                # Console.line() writes its blank lines without passing the live display's render hook
                kind = "blank-lines-of-console.line-written-below-the-live-frame"
                self.exempt = True
            elif getattr(self, "full_height_transient_stop", False) and got[:len(want)] == want and sum(1 for l in got[len(want):] if l.strip()) == 1:
                # (exactly ONE line stays behind: the frame's first, scrolled out by the line end stop() adds)
                kind = "remnant-after-transient-stop-of-screen-filling-frame"
                self.exempt = True      # the scrolled-off line stays: later comparisons would only repeat this
            elif len(got) > len(want) and all(w in got for w in want):
                kind = "remnant-of-earlier-frame-on-screen"
            elif any(p not in got for p in self.printed if p.strip()):
                kind = "printed-line-overwritten-or-lost"
            self.ctx.violation("%s:%s" % (kind, self.kind),
                               {"config": self.cfg, "kind": self.kind, "log": log, "after": op,
                                "screen": got[-30:], "expected": want[-30:]})
            return False
        if self.screen.cursor_above_top:
            if self.full_height_transient_stop:
                # same mechanism seen through the clamp counter: the clear after the extra line runs into the
                # top of the viewport
                self.ctx.violation("remnant-after-transient-stop-of-screen-filling-frame:%s" % self.kind,
                                   {"config": self.cfg, "log": log, "seen_as": "cursor-up clamped at the viewport top"})
                self.exempt = True
                return True
            self.ctx.violation("cursor-moved-above-viewport:%s" % self.kind, {"config": self.cfg, "log": log})
            return False
        return True


def restore_std(saved):
    sys.stdout, sys.stderr = saved


def wl_histories(ctx, rng, case_no):
    kind = rng.choice(["live", "live", "progress", "status"])
    cfg = {"size_source": rng.choice(["args", "args", "width+detected", "detected"]),
           "width": rng.choice([20, 40, 60, 100]), "height": rng.choice([3, 4, 6, 8, 12]),
           "transient": rng.random() < 0.4, "overflow": rng.choice(["crop", "ellipsis", "ellipsis", "visible"]),
           "redirect": rng.choice(["both", "both", "both", "stdout", "stderr"])}
    ops = [["start"]] + gen_history(rng, kind, cfg["height"], rng.choice([5, 12, 25, 40])) + [["stop"]]
    saved = (sys.stdout, sys.stderr)
    log = []
    try:
        s = Session(ctx, kind, cfg)
        prints = 0
        for op in ops:
            log.append(op)
            s.apply(op)
            prints += op[0] in ("print", "log", "pyprint")
            if not s.check(log, op):
                break
        else:
            s.feed()
            ctx.count("mon.cursor_visible_after_stop")
            if not s.screen.cursor_visible:
                ctx.violation("cursor-hidden-after-stop:%s" % kind, {"config": cfg, "log": log})
            if sys.stdout is not saved[0] or sys.stderr is not saved[1]:
                ctx.violation("stdio-still-redirected-after-stop:%s" % kind, {"config": cfg, "log": log})
            if s.console._render_hooks:
                ctx.violation("render-hook-left-after-stop:%s" % kind, {"config": cfg, "log": log})
        ctx.hist("kind", kind)
        ctx.hist("overflow", cfg["overflow"])
        ctx.hist("frame_heights_seen", len(s.heights))
        ctx.distinct("final_screens", tuple(s.screen.lines()[-12:]))
        ctx.case_done(("h", kind, repr(cfg), repr(ops)), s.redraws >= 3 and len(s.heights) >= 2 and prints >= 2,
                      {"kind": kind, "config": cfg, "ops": ops[:20]})
    finally:
        restore_std(saved)


def run_with_fault(ctx, kind, cfg, ops, fail_render=None, fail_after_op=None, pre_ops=()):
    """Returns (outcome dict).  pre_ops run before the `with` block (tasks that exist when start() renders)."""
    saved = (sys.stdout, sys.stderr)
    Flaky.counter[0] = 0
    Flaky.fail_at[0] = None
    s = Session(ctx, kind, cfg, flaky=True)
    for op in pre_ops:
        s.apply(op)
    Flaky.counter[0] = 0
    Flaky.fail_at[0] = fail_render
    raised = None
    entered = False
    try:
        try:
            with s.obj:
                entered = True
                s.started = True
                for j, op in enumerate(ops):
                    s.apply(op)
                    if fail_after_op is not None and j == fail_after_op:
                        raise FAULT[0]("body %d" % j)
        except (Boom, Interrupt) as e:
            raised = e
        s.feed()
        out = {"raised": raised is not None, "renders": Flaky.counter[0],
               "stdout_restored": sys.stdout is saved[0], "stderr_restored": sys.stderr is saved[1],
               "hooks": len(s.console._render_hooks), "buffer_index": s.console._buffer_index,
               "cursor_visible": s.screen.cursor_visible, "entered": entered}
        # a subsequent plain print must write exactly "x\n"
        before = len(s.console.file.getvalue())
        restore_std(saved)
        s.console.print("x")
        out["after_print"] = s.console.file.getvalue()[before:]
        # recovery: the program catches the exception, prints, and starts the SAME display object again; what it
        # printed in between stays, the new run draws below it (a fresh screen model from here on: a cursor that
        # climbs out of the new region hits the top of it and is counted)
        Flaky.fail_at[0] = None
        try:
            s.console.print("r1")
            s.obj.start()
            if kind == "live":
                from rich.text import Text
                s.obj.update(Text("g-0\ng-1"), refresh=True)
            else:
                s.obj.refresh()
            s.console.print("r2")
            s.obj.refresh()
            s.obj.stop()
            restore_std(saved)
            scr = term.Screen(s.W, s.H)
            scr.feed(s.console.file.getvalue()[before:])
            lines = [l.strip() for l in scr.lines()]
            marks = [l for l in lines if l in ("x", "r1", "r2")]
            out["recovery"] = {"lines": lines[-12:], "marks": marks, "cursor_above_region": scr.cursor_above_top,
                               "unknown": scr.unknown[:2]}
        except (Boom, Interrupt) as e:
            out["recovery"] = {"error": repr(e)}
        return out
    finally:
        Flaky.fail_at[0] = None
        restore_std(saved)


def wl_faults(ctx, rng, case_no):
    kind = rng.choice(["live", "progress"])
    FAULT[0] = Interrupt if rng.random() < 0.35 else Boom
    cfg = {"width": rng.choice([30, 60]), "height": rng.choice([4, 8]), "transient": rng.random() < 0.4,
           "overflow": rng.choice(["crop", "ellipsis", "visible"])}
    ops = [o for o in gen_history(rng, kind, cfg["height"], rng.choice([3, 6, 10])) if o[0] not in ("start", "stop")]
    pre_ops = []
    if kind == "progress" and rng.random() < 0.6:
        pre_ops = [["add_task", "pre%d" % i, 10, True] for i in range(rng.randint(1, 2))]
        # task ids used by later ops refer to tasks added inside the block: shift them
        ops = [o for o in ops if o[0] not in ("advance", "visible", "remove_task", "update_refresh", "task_change")]
    base = run_with_fault(ctx, kind, cfg, ops, pre_ops=pre_ops)
    R, B = base["renders"], len(ops)
    if base["raised"]:
        ctx.violation("fault-free-run-raised(harness)", {"kind": kind, "ops": ops})
        return
    points = [("render", k) for k in range(1, R + 1)] + [("body", j) for j in range(B)]
    for what, idx in points:
        ctx.count("mon.fault_runs")
        try:
            out = run_with_fault(ctx, kind, cfg, ops, fail_render=idx if what == "render" else None,
                                 fail_after_op=idx if what == "body" else None, pre_ops=pre_ops)
        except (Exception, KeyboardInterrupt) as e:
            ctx.violation("unexpected-exception-type-escapes:%s:%s" % (kind, exc_mechanism(e)),
                          {"kind": kind, "config": cfg, "ops": ops, "fault": [what, idx], "error": repr(e)})
            continue
        wit = {"kind": kind, "config": cfg, "pre_ops": pre_ops, "ops": ops, "fault": [what, idx], "outcome": out,
               "exception_class": FAULT[0].__name__ + ("(KeyboardInterrupt)" if FAULT[0] is Interrupt else "(Exception)")}
        where = "during-start" if not out["entered"] else "in-block"
        ctx.count("mon.cleanup_after_fault")
        if not out["raised"]:
            ctx.violation("injected-exception-swallowed:%s:%s" % (kind, where), wit)
        elif not (out["stdout_restored"] and out["stderr_restored"]):
            ctx.violation("stdio-not-restored-after-exception:%s:%s" % (kind, where), wit)
        elif out["hooks"]:
            ctx.violation("render-hook-not-removed-after-exception:%s:%s" % (kind, where), wit)
        elif out["buffer_index"] != 0 or out["after_print"] != "x\n":
            ctx.violation("console-buffer-still-nested-after-exception:%s:%s" % (kind, where), wit)
        elif not out["cursor_visible"]:
            ctx.violation("cursor-hidden-after-exception:%s:%s" % (kind, where), wit)
        else:
            rec = out.get("recovery") or {}
            ntasks = sum(1 for o in list(pre_ops) + list(ops) if o[0] == "add_task")
            if kind == "progress" and ntasks >= cfg["height"] - 1:
                # a Progress frame as tall as (or taller than) the screen is not cropped; what then happens to the
                # rows that scroll away is the histories workload's subject (and known finding), not this clause
                ctx.count("recovery_not_judged:screen-filling-progress-frame")
                rec = {"marks": ["x", "r1", "r2"]}
            ctx.count("mon.recovery_after_fault")
            if rec.get("error") or rec.get("marks") != ["x", "r1", "r2"] or rec.get("cursor_above_region"):
                ctx.violation("restarted-display-damages-lines-printed-after-the-exception:%s:%s" % (kind, where), wit)
        ctx.hist("fault_kind", "%s/%s/%s/%s" % (kind, what, where, FAULT[0].__name__))
        ctx.case_done(("f", kind, repr(cfg), repr(ops), what, idx), True,
                      {"kind": kind, "ops": ops[:8], "fault": [what, idx], "renders_in_clean_run": R})


def workloads(tier):
    big = tier == "thorough"
    return [WL("histories", wl_histories, 80000 if big else 8000),
            WL("faults", wl_faults, 4000 if big else 500)]


LEVEL_TEXT = ("Drives real Live / Progress / Status objects (auto_refresh off) through seeded random operation "
              "histories, replays every byte written to the console on an independent VT100-subset screen model and "
              "compares the transcript with 'printed lines in order + last refreshed frame' after every operation; "
              "then enumerates every fault point (each render call, each position in the block) of shorter histories "
              "and checks propagation and restoration after each injected exception.")
LEVEL_NOTE = ("Trusted: rv/model/term.py (xterm subset, self-tested), rv/model/sgr.py; the expected frame is the same "
              "renderable printed alone on a plain console of the same width.")
TECHNIQUE = "runtime monitoring: recorded byte stream replayed on a terminal screen model after every operation; exhaustive fault-point enumeration over render calls and block positions"
