"""C12 - progress accounting is exact for any history and any interleaving."""
import io
import threading

from rv.core.runner import WL

ID = "C12"
LEVEL = "exploration"
RULE = ("(1) sequential: random histories (<=40 ops) of add_task / advance / update(total, completed, advance) / reset "
        "/ start_task / stop_task over several tasks with int/float amounts, zero / negative / huge totals, total "
        "changes, resets and a monotone fake clock with repeats and jumps, compared with a sequential reference "
        "model after EVERY op; (2) track(): sequences and generators of length 0..50, auto_refresh on (real helper "
        "thread) and off, early break; (3) concurrent: the same kind of histories dealt to 2-8 real threads run under "
        "the cooperative scheduler (seeded random walk and PCT; preemption at every line of rich/progress.py and at "
        "every bytecode of the mutators, at every lock operation); advances carry distinct power-of-two amounts so "
        "completed names exactly which advances are reflected; the final state is also compared with a sequential "
        "replay in lock-acquisition order. Non-trivial: sequential - >=5 ops incl. a total change or reset; "
        "concurrent - >=2 threads advanced the same task and >=1 context switch fell inside a mutator; distinct by "
        "history / (program, schedule).")
ASSUMPTIONS = ["a bytecode boundary inside `task.completed += advance` is a legal preemption point (it is on every "
               "CPython this release supports; 3.12's GIL merely happens not to switch there)",
               "the reference model mirrors the statement: completed = last explicit value + advances since (same "
               "float addition order), percentage = clamp(completed/total*100)",
               "on an early break out of track() the element being processed may or may not have been counted"]
REQUIRED = ["mon.concurrent_estimates", "mon.track_schedules", "mon.completed", "mon.percentage", "mon.finished", "mon.finish_time_fixed", "mon.speed", "mon.track",
            "mon.schedules", "mon.conservation", "mon.lock_order_replay", "mon.switches_inside_mutators", "mon.time_remaining_any_time", "mon.track_long_sequence"]
MIN_NONTRIVIAL = {"quick": 1500, "thorough": 80000}


class Clock:
    def __init__(self):
        self.t = 1000.0

    def __call__(self):
        return self.t


def make_progress(clock, **kw):
    from rich.console import Console
    from rich.progress import Progress
    console = Console(file=io.StringIO(), force_terminal=False, width=80, _environ={}, get_time=clock)
    return Progress(console=console, auto_refresh=False, get_time=clock, **kw)


# ---------------------------------------------------------------------------------------------- sequential
class MTask:
    def __init__(self, total, completed, started, now):
        self.total = total
        self.completed = completed
        self.start_time = now if started else None
        self.stop_time = None
        self.finish_fixed = None      # observed finished_time that must stay fixed
        self.exists = True


def clamp_pct(completed, total):
    if not total:
        return 0.0
    return min(100.0, max(0.0, (completed / total) * 100.0))


def gen_seq_ops(rng, nonneg):
    ops = []
    ntasks = 0
    for _ in range(rng.randint(1, 40)):
        r = rng.random()
        if r < 0.12 or ntasks == 0:
            ops.append(["add_task", rng.choice([100, 10, 1, 0, 0.5, -5, 10 ** 30, 3]), rng.choice([0, 0, 5, 200]),
                        rng.random() < 0.8])
            ntasks += 1
            continue
        t = rng.randrange(ntasks)
        amount = rng.choice([1, 1, 2, 0.5, 0, 10, 1000, 0.25] + ([] if nonneg else [-1, -7.5]))
        if r < 0.45:
            ops.append(["advance", t, amount])
        elif r < 0.62:
            kw = {}
            if rng.random() < 0.35:
                kw["total"] = rng.choice([100, 1, 0, 50, 10 ** 30, -1, 7.5])
            if rng.random() < 0.4:
                kw["completed"] = rng.choice([0, 5, 50, 100, 1e9, 2.5])
            if rng.random() < 0.5:
                kw["advance"] = amount
            if rng.random() < 0.2:
                kw["visible"] = rng.random() < 0.5
            ops.append(["update", t, kw])
        elif r < 0.70:
            kw = {"start": rng.random() < 0.7, "completed": rng.choice([0, 0, 10, 200])}
            if rng.random() < 0.4:
                kw["total"] = rng.choice([100, 10, 0, 5])
            ops.append(["reset", t, kw])
        elif r < 0.76:
            ops.append(["start_task", t])
        elif r < 0.82:
            ops.append(["stop_task", t])
        else:
            ops.append(["tick", rng.choice([0, 0, 0.001, 1, 1, 5, 100, 1e6])])
    return ops


def wl_sequential(ctx, rng, case_no):
    nonneg = rng.random() < 0.7
    ops = gen_seq_ops(rng, nonneg)
    clock = Clock()
    p = make_progress(clock, speed_estimate_period=rng.choice([30.0, 1.0, 1e9]))
    model = []
    log = []
    interesting = 0
    for op in ops:
        log.append(op)
        k = op[0]
        wit = {"log": log, "nonneg_advances": nonneg}
        advanced_running = None
        if k == "tick":
            clock.t += op[1]
            continue
        if k == "add_task":
            tid = p.add_task("t", total=op[1], completed=op[2], start=op[3])
            if tid != len(model):
                ctx.violation("task-id-not-sequential", dict(wit, got=int(tid)))
                return
            model.append(MTask(op[1], op[2], op[3], clock.t))
        else:
            t = op[1]
            m = model[t]
            task_before_finished = p._tasks[t].finished_time
            if k in ("advance", "update") and (m.start_time is None or m.stop_time is not None):
                # (the estimates are promised for tasks that are running whenever they move)
                m.moved_while_not_running = True
            if k == "advance":
                p.advance(t, op[2])
                m.completed = m.completed + op[2]
                advanced_running = t
            elif k == "update":
                kw = op[2]
                p.update(t, **kw)
                if "total" in kw:
                    if kw["total"] != m.total:
                        m.finish_fixed = None       # (the finish time may move only when the total CHANGES)
                    m.total = kw["total"]
                    interesting += 1
                if "advance" in kw:
                    m.completed = m.completed + kw["advance"]
                if "completed" in kw:
                    m.completed = kw["completed"]
            elif k == "reset":
                kw = op[2]
                p.reset(t, **kw)
                m.start_time = clock.t if kw["start"] else None
                if "total" in kw:
                    m.total = kw["total"]
                m.completed = kw["completed"]
                m.finish_fixed = None
                interesting += 1
            elif k == "start_task":
                p.start_task(t)
                if m.start_time is None:
                    m.start_time = clock.t
            elif k == "stop_task":
                p.stop_task(t)
                if m.start_time is None:
                    m.start_time = clock.t
                m.stop_time = clock.t
        # ---- the monitor, after every operation, for every task
        tasks = p.tasks
        for i, (task, m) in enumerate(zip(tasks, model)):
            ctx.count("mon.completed")
            if task.completed != m.completed or type(task.completed) is not type(m.completed):
                ctx.violation("completed-differs-from-last-set-plus-advances:" + k,
                              dict(wit, task=i, got=task.completed, want=m.completed))
                return
            if task.total != m.total:
                ctx.violation("total-differs:" + k, dict(wit, task=i, got=task.total, want=m.total))
                return
            ctx.count("mon.percentage")
            want_pct = clamp_pct(m.completed, m.total)
            if task.percentage != want_pct or not (0.0 <= task.percentage <= 100.0):
                ctx.violation("percentage-not-clamped-ratio", dict(wit, task=i, got=task.percentage, want=want_pct))
                return
            if (task.start_time is not None) != (m.start_time is not None):
                ctx.violation("started-flag-differs:" + k, dict(wit, task=i))
                return
            # finish time stays fixed
            if m.finish_fixed is not None:
                ctx.count("mon.finish_time_fixed")
                if task.finished_time != m.finish_fixed:
                    ctx.violation("finish-time-changed-without-total-change-or-reset:" + k,
                                  dict(wit, task=i, before=m.finish_fixed, after=task.finished_time))
                    return
            elif task.finished_time is not None:
                m.finish_fixed = task.finished_time
            if nonneg:
                ctx.count("mon.speed")
                sp = task.speed
                if sp is not None and sp < 0:
                    ctx.violation("negative-speed-with-non-negative-advances", dict(wit, task=i, speed=sp))
                    return
        if k in ("advance", "update") and op[0] != "tick":
            t = op[1]
            task, m = tasks[t], model[t]
            if m.start_time is not None:
                ctx.count("mon.finished")
                if m.completed >= m.total and not task.finished:
                    ctx.violation("started-task-not-finished-although-completed>=total:" + k,
                                  dict(wit, task=t, completed=task.completed, total=task.total))
                    return
            if nonneg and k == "advance" and m.start_time is not None and m.stop_time is None:
                tr = task.time_remaining
                if tr is not None and tr < 0:
                    ctx.violation("negative-time-remaining-after-advance-of-running-task",
                                  dict(wit, task=t, time_remaining=tr))
                    return
        if nonneg and k != "add_task":
            # ... and for such a task the time-remaining estimate is never negative, whenever it is asked for - also
            # after a reset, a stop or a start, not only right after an advance
            for i, (task, m) in enumerate(zip(tasks, model)):
                if getattr(m, "moved_while_not_running", False):
                    continue
                ctx.count("mon.time_remaining_any_time")
                try:
                    tr = task.time_remaining
                except OverflowError:
                    continue        # (huge totals: documented as not taken up, DESIGN 8)
                if tr is not None and tr < 0:
                    ctx.violation("negative-time-remaining-of-a-task-that-only-moved-while-running:after-" + k,
                                  dict(wit, task=i, time_remaining=tr, completed=task.completed, total=task.total,
                                       speed=task.speed))
                    return
    ctx.hist("seq_ops", min(len(ops) // 10 * 10, 40))
    ctx.case_done(("seq", repr(ops)), len(ops) >= 5 and interesting >= 1, {"ops": ops[:25], "nonneg": nonneg})


# ---------------------------------------------------------------------------------------------- track()
def wl_track(ctx, rng, case_no):
    n = rng.choice([0, 1, 2, 5, 17, 50])
    if rng.random() < 0.06:
        # long sequences: counts beyond a thousand, lengths that are not a multiple of anything convenient
        n = rng.choice([999, 1000, 1001, 1024, 2001, 2999, 4097, 10007]) + rng.choice([0, 0, 1, 7])
        ctx.count("mon.track_long_sequence")
    items = [("x", i) for i in range(n)]
    as_gen = rng.random() < 0.4
    auto = rng.random() < 0.5
    stop_at = rng.choice([None, None, None, rng.randint(0, max(0, n))])
    clock = Clock()
    from rich.console import Console
    from rich.progress import Progress
    # the kind of console must not matter for the accounting: a file, a terminal, a terminal that declares itself
    # dumb / unknown (TERM), with or without colour
    term = rng.choice([None, None, "dumb", "unknown", "xterm-256color"])
    tty = rng.random() < 0.5
    console = Console(file=io.StringIO(), force_terminal=tty, width=80, _environ={"TERM": term} if term else {},
                      get_time=clock, color_system=rng.choice([None, "standard", "truecolor"]))
    p = Progress(console=console, auto_refresh=auto, get_time=clock, refresh_per_second=1000,
                 transient=rng.random() < 0.3, disable=False)
    got = []
    wit = {"n": n, "generator": as_gen, "auto_refresh": auto, "stop_at": stop_at, "TERM": term, "terminal": tty}
    ctx.hist("track_console", "%s/%s" % ("tty" if tty else "file", term))
    ctx.count("mon.track")
    broke = False
    module_level = rng.random() < 0.25
    wit["route"] = "rich.progress.track()" if module_level else "Progress.track()"
    ctx.hist("track_route", wit["route"])
    if module_level:
        # the module-level helper builds its own Progress (spied on here to read the task afterwards), with or
        # without a description column, and disabled now and then (no display: the counting is still promised)
        import rich.progress as rp
        made = []

        class Spy(rp.Progress):
            def __init__(self, *a, **k):
                super().__init__(*a, **k)
                made.append(self)
        orig = rp.Progress
        rp.Progress = Spy
        try:
            seq = (x for x in items) if as_gen else list(items)
            gen = rp.track(seq, rng.choice(["Working...", "", "d"]), total=n if as_gen else None, auto_refresh=auto,
                           console=console, transient=rng.random() < 0.3, get_time=clock, refresh_per_second=1000,
                           update_period=0.0005, disable=rng.random() < 0.15)
            for x in gen:
                got.append(x)
                if stop_at is not None and len(got) >= stop_at + 1:
                    broke = True
                    break
            gen.close()
        finally:
            rp.Progress = orig
        if not made or not made[0].tasks:
            if n or not broke:
                ctx.violation("track-made-no-task", wit)
            ctx.case_done(("track", n, as_gen, auto, stop_at, "module"), False, wit)
            return
        p = made[0]
    else:
        with p:
            seq = (x for x in items) if as_gen else list(items)
            gen = p.track(seq, total=n if as_gen else None, update_period=0.0005)
            for x in gen:
                got.append(x)
                if stop_at is not None and len(got) >= stop_at + 1:
                    broke = True
                    break
            gen.close()
    task = p.tasks[0]
    if got != items[:len(got)]:
        ctx.violation("track-yields-wrong-elements", dict(wit, got=got[:10]))
    elif not broke and len(got) != n:
        ctx.violation("track-does-not-yield-every-element", dict(wit, yielded=len(got)))
    elif not broke and task.completed != n:
        ctx.violation("track-completed-differs-from-elements-yielded:auto=%s" % auto,
                      dict(wit, completed=task.completed, yielded=len(got)))
    elif broke and not (len(got) - 1 <= task.completed <= len(got)):
        ctx.violation("track-completed-differs-from-elements-yielded:auto=%s:break" % auto,
                      dict(wit, completed=task.completed, yielded=len(got)))
    alive = [t for t in threading.enumerate() if type(t).__name__ in ("_TrackThread", "_RefreshThread")]
    if alive:
        ctx.violation("track-leaves-helper-thread-running", dict(wit, threads=[t.name for t in alive]))
    ctx.case_done(("track", n, as_gen, auto, stop_at), n >= 2, wit)


# ---------------------------------------------------------------------------------------------- track, scheduled
_track_holder = {"sched": None, "firings": 4}
_track_codes = None


def _instrument_track(sched):
    """track() with auto_refresh hands the counting to a helper thread (_TrackThread) that wakes on a timer and
    copies a counter the iterating thread increments.  Under the cooperative scheduler the timer fires where the
    schedule says, and the helper can be preempted at every line / every bytecode of its loop."""
    global _track_codes
    from rv.sched import scheduler as S
    from rv.sched import coop
    import rich.progress as rp
    if _track_codes is None:
        line_codes = S.code_objects(rp)
        instr = [c for c in line_codes if c.co_qualname in ("_TrackThread.run", "Progress.track", "Progress.advance",
                                                            "Progress.update", "_TrackThread.__exit__")]
        _track_codes = (line_codes, instr)
        coop.patch_thread_class(rp._TrackThread, lambda: _track_holder["sched"])
        coop.patch_thread_class(rp._RefreshThread, lambda: _track_holder["sched"])
    S.install(sched, _track_codes[0], _track_codes[1])
    _track_holder["sched"] = sched
    rp.RLock = lambda: coop.CoopRLock(_track_holder["sched"], "progress.RLock")
    rp.Event = lambda: coop.CoopEvent(_track_holder["sched"], "progress.Event", max_firings=_track_holder["firings"])


def _uninstrument_track():
    from rv.sched import scheduler as S
    import rich.progress as rp
    rp.RLock = threading.RLock
    rp.Event = threading.Event
    S.uninstall()
    _track_holder["sched"] = None


def wl_track_scheduled(ctx, rng, case_no):
    from rv.sched import scheduler as S
    from rich.console import Console
    from rich.progress import Progress
    n = rng.choice([1, 2, 3, 5, 8, 13])
    as_gen = rng.random() < 0.3
    firings = rng.choice([1, 2, 4, 8])
    strat_kind = rng.choice(["pct2", "pct3", "random", "random"])
    sseed = rng.randrange(1 << 30)
    if strat_kind == "random":
        strategy = S.RandomWalk(sseed, switch_prob=rng.choice([0.1, 0.3, 0.6]))
    else:
        strategy = S.PCT(sseed, depth=int(strat_kind[3]), est_steps=rng.choice([300, 1000]))
    sched = S.Scheduler(strategy, max_steps=400000)
    _track_holder["firings"] = firings
    _instrument_track(sched)
    clock = Clock()
    items = [("x", i) for i in range(n)]
    got = []
    observed = []      # (elements yielded so far, task.completed) read by the iterating thread
    box = {}
    try:
        console = Console(file=io.StringIO(), force_terminal=False, width=80, _environ={}, get_time=clock)
        p = Progress(console=console, auto_refresh=True, get_time=clock, refresh_per_second=10)
        box["p"] = p

        def main():
            with p:
                seq = (x for x in items) if as_gen else list(items)
                for x in p.track(seq, total=n if as_gen else None, update_period=0.01):
                    got.append(x)
                    clock.t += 0.25
                    if p.tasks:
                        observed.append((len(got), p.tasks[0].completed))
        sched.spawn("main", main)
        outcome = sched.run(timeout=30.0)
    finally:
        _uninstrument_track()
    ctx.count("mon.track_schedules")
    wit = {"n": n, "generator": as_gen, "timer_firings_allowed": firings, "strategy": strat_kind,
           "schedule_seed": sseed, "outcome": outcome, "switches": sched.switches, "steps": sched.step}
    if outcome == "watchdog":
        ctx.mark_inconclusive("track schedule watchdog fired (30 s)")
        return
    if outcome == "deadlock":
        ctx.violation("deadlock-in-track", dict(wit, wait_for=sched.deadlock))
        return
    if sched.errors:
        ctx.violation("exception-in-thread:" + sched.errors[0][1][:60], dict(wit, errors=sched.errors[:2]))
        return
    task = p.tasks[0]
    wit["completed"] = task.completed
    wit["observed(yielded, completed)"] = observed[:20]
    if got != items:
        ctx.violation("track-yields-wrong-elements:scheduled", dict(wit, got=got[:10]))
    elif task.completed != n:
        ctx.violation("track-completed-differs-from-elements-yielded:auto=True:scheduled", wit)
    elif any(c > y for y, c in observed) or any(b[1] < a[1] for a, b in zip(observed, observed[1:])):
        # the count shown while iterating never runs ahead of the elements handed out, and never goes back
        ctx.violation("track-count-ahead-of-elements-or-decreasing:scheduled", wit)
    helper_steps = sum(1 for t in sched.threads if t.name.startswith("_TrackThread"))
    ctx.hist("track_timer_firings", firings)
    ctx.distinct("track schedules(choice sequences)", tuple(sched.choices or ()))
    ctx.case_done(("track-sched", n, as_gen, firings, strat_kind, sseed), n >= 2 and helper_steps >= 1 and sched.switches >= 2,
                  {"n": n, "firings": firings, "strategy": strat_kind, "switches": sched.switches,
                   "observed": observed[:8]})


# ---------------------------------------------------------------------------------------------- concurrent
_codes = None


def _instrument(sched):
    global _codes
    from rv.sched import scheduler as S
    import rich.progress as rp
    if _codes is None:
        line_codes = S.code_objects(rp)
        names = {"Progress.advance", "Progress.update", "Progress.reset", "Progress.add_task",
                 "Progress.start_task", "Progress.stop_task"}
        instr = [c for c in line_codes if c.co_qualname in names]
        _codes = (line_codes, instr)
    S.install(sched, _codes[0], _codes[1])


def gen_program(rng, nthreads, ntasks, with_sets):
    """Per thread a list of ops; every advance of a task carries a distinct power of two."""
    bit = {t: 0 for t in range(ntasks)}
    prog = []
    for th in range(nthreads):
        ops = []
        for _ in range(rng.randint(1, 4)):
            t = rng.randrange(ntasks)
            r = rng.random()
            if with_sets and r < 0.2:
                ops.append(["set", t, rng.choice([0, 0, 1 << 40])])
            elif r < 0.3:
                amt = float(1 << bit[t]) if rng.random() < 0.3 else (1 << bit[t])
                bit[t] += 1
                ops.append(["update_advance", t, amt])
            elif r < 0.36:
                ops.append(["add_task"])
            elif r < 0.40:
                ops.append(["reset_total", t, rng.choice([10, 1 << 45])])
            else:
                amt = 1 << bit[t]
                bit[t] += 1
                ops.append(["advance", t, amt])
        prog.append(ops)
    return prog


def apply_conc_op(p, op, results=None):
    k = op[0]
    if k == "advance":
        p.advance(op[1], op[2])
    elif k == "update_advance":
        p.update(op[1], advance=op[2])
    elif k == "set":
        p.update(op[1], completed=op[2])
    elif k == "add_task":
        tid = p.add_task("n", total=100)
        if results is not None:
            results.append(int(tid))
    elif k == "reset_total":
        p.update(op[1], total=op[2])


class TickingClock(Clock):
    """A monotone clock that moves on with every reading (what time.monotonic does): two threads that read it
    one after the other get different, ordered values."""

    def __call__(self):
        self.t += 0.5
        return self.t


def state_of(p):
    return {int(t.id): {"completed": t.completed, "total": t.total, "finished": t.finished,
                        "finished_time": t.finished_time, "samples": len(t._progress)} for t in p._tasks.values()}


def wl_concurrent(ctx, rng, case_no):
    from rv.sched import scheduler as S
    nthreads = rng.choice([2, 2, 3, 4, 8])
    ntasks = rng.choice([1, 1, 2, 3])
    with_sets = rng.random() < 0.3
    prog = gen_program(rng, nthreads, ntasks, with_sets)
    strat_kind = rng.choice(["pct2", "pct3", "pct4", "random", "random"])
    sseed = rng.randrange(1 << 30)
    if strat_kind == "random":
        strategy = S.RandomWalk(sseed, switch_prob=rng.choice([0.05, 0.2, 0.5]))
    else:
        strategy = S.PCT(sseed, depth=int(strat_kind[3]), est_steps=rng.choice([200, 600, 1500]))
    execute(ctx, prog, nthreads, ntasks, strategy, strat_kind, sseed)


def wl_dfs(ctx, rng, case_no):
    """Systematic: two threads, one or two mutator calls each on the same task; EVERY yield point (each executed
    line of rich/progress.py, each bytecode of the mutators, each lock operation) is a decision point and every
    placement of one preemption (two in the thorough tier, capped) is run."""
    from rv.sched import scheduler as S
    nthreads = 2
    ntasks = 1
    prog = gen_program(rng, nthreads, ntasks, rng.random() < 0.3)
    prog = [ops[:rng.choice([1, 1, 2])] for ops in prog]
    bound = 2 if ctx.tier == "thorough" else 1
    gen = S.explore_bounded(lambda strat: execute(ctx, prog, nthreads, ntasks, strat, "dfs%d" % bound, 0, plan_of=strat),
                            bound=bound, max_runs=3000 if ctx.tier == "thorough" else 400, kinds=None)
    n = 0
    exhausted = None
    try:
        while True:
            next(gen)
            n += 1
    except StopIteration as stop:
        exhausted = stop.value
    ctx.count("dfs_programs")
    ctx.count("dfs_schedules", n)
    ctx.hist("dfs_space_exhausted", "yes" if exhausted else "no")


def execute(ctx, prog, nthreads, ntasks, strategy, strat_kind, sseed, plan_of=None):
    from rv.sched import scheduler as S
    from rv.sched import coop
    with_sets = any(op[0] == "set" for ops in prog for op in ops)
    sched = S.Scheduler(strategy, max_steps=400000)
    ticking = (sseed + len(prog)) % 2 == 0 and not with_sets
    clock = TickingClock() if ticking else Clock()
    p = make_progress(clock)
    lock = coop.CoopRLock(sched, "progress._lock")
    p._lock = lock
    initial = 0
    for t in range(ntasks):
        p.add_task("t%d" % t, total=1 << 44, completed=initial)
    _instrument(sched)
    stamps = {}     # (thread, op index) -> (call step, return step)
    new_ids = []

    def body(th):
        def run():
            for i, op in enumerate(prog[th]):
                call = sched.step
                apply_conc_op(p, op, new_ids)
                stamps[(th, i)] = (call, sched.step)
        return run
    for th in range(nthreads):
        sched.spawn("T%d" % th, body(th))
    outcome = sched.run(timeout=30.0)
    S.uninstall()
    ctx.count("mon.schedules")
    wit = {"program": prog, "strategy": strat_kind, "schedule_seed": sseed, "outcome": outcome,
           "switches": sched.switches, "steps": sched.step}
    if outcome == "watchdog":
        ctx.mark_inconclusive("schedule watchdog fired (30 s)")
        return
    if outcome == "deadlock":
        ctx.violation("deadlock-in-progress-mutators", dict(wit, wait_for=sched.deadlock))
        return
    if sched.errors:
        ctx.violation("exception-in-thread:" + sched.errors[0][1][:60], dict(wit, errors=sched.errors[:2]))
        return
    final = state_of(p)
    wit["final"] = final
    wit["clock"] = "advances with every reading" if ticking else "frozen"
    # (iv) estimates: all advances are non-negative and the clock is monotone, so no speed estimate and no
    # time-remaining estimate of a running task may be negative, and a task's samples are in time order
    ctx.count("mon.concurrent_estimates")
    for t in p._tasks.values():
        stamps_ = [smp.timestamp for smp in t._progress]
        sp, rem = t.speed, t.time_remaining
        if (sp is not None and sp < 0) or (rem is not None and rem < 0) or stamps_ != sorted(stamps_):
            ctx.violation("negative-estimate-or-samples-out-of-time-order-under-concurrency",
                          dict(wit, task=int(t.id), speed=sp, time_remaining=rem, sample_times=stamps_[:12]))
            return
    # (i)/(ii) conservation by bitmask
    ctx.count("mon.conservation")
    shared = 0
    for t in range(ntasks):
        adv = [(th, i, op) for th in range(nthreads) for i, op in enumerate(prog[th])
               if op[0] in ("advance", "update_advance") and op[1] == t]
        sets = [(th, i, op) for th in range(nthreads) for i, op in enumerate(prog[th]) if op[0] == "set" and op[1] == t]
        if len({th for th, _, _ in adv}) >= 2:
            shared += 1
        got = final[t]["completed"]
        if not sets:
            want = initial + sum(op[2] for _, _, op in adv)
            if got != want:
                lost = [op[2] for _, _, op in adv if not _bit_in(got - initial, op[2])]
                ctx.violation("lost-or-duplicated-update", dict(wit, task=t, completed=got, want=want, missing=lost[:6]))
                return
        else:
            # explicit sets use the values 0 and 2**40, advances use distinct bits below 40: the observed value
            # must be (0 or 2**40) + a subset of the issued advance bits, and every advance whose call began
            # after ALL sets on the task had returned must be reflected
            v = int(got)
            rest = v - (v & (1 << 40))
            mask = sum(int(op[2]) for _, _, op in adv)
            if got != v or rest & ~mask:
                ctx.violation("completed-not-explained-by-any-set-plus-advances", dict(wit, task=t, completed=got))
                return
            last_set_ret = max(stamps[(th, i)][1] for th, i, _ in sets)
            for th, i, op in adv:
                if stamps[(th, i)][0] > last_set_ret and not (rest & int(op[2])):
                    ctx.violation("lost-or-duplicated-update", dict(wit, task=t, completed=got, missing=[op[2]]))
                    return
    # task ids handed out are unique
    if len(set(new_ids)) != len(new_ids) or len(final) != ntasks + len(new_ids):
        ctx.violation("add_task-ids-not-unique-under-concurrency", dict(wit, ids=new_ids))
        return
    # (iii) sequential replay in lock-acquisition order
    order = [name for _, name in lock.acquisitions if name.startswith("T")]
    per_thread_idx = {th: 0 for th in range(nthreads)}
    lock_ops = {th: [op for op in prog[th]] for th in range(nthreads)}
    if ticking:
        ctx.count("lock_order_replay_skipped_ticking_clock")     # (elapsed times depend on how often the clock was read)
    elif len(order) == sum(len(v) for v in lock_ops.values()):
        ctx.count("mon.lock_order_replay")
        clock2 = Clock()
        q = make_progress(clock2)
        for t in range(ntasks):
            q.add_task("t%d" % t, total=1 << 44, completed=initial)
        for name in order:
            th = int(name[1:])
            apply_conc_op(q, lock_ops[th][per_thread_idx[th]])
            per_thread_idx[th] += 1
        want = state_of(q)
        if want != final:
            ctx.violation("final-state-differs-from-sequential-replay-in-lock-order", dict(wit, replay=want, order=order))
            return
    else:
        ctx.count("lock_order_unavailable")
        if len(order) < sum(len(v) for v in lock_ops.values()):
            # fewer outermost acquisitions than operations: some mutator ran without the lock
            ctx.hist("lock_acquisitions_missing", "yes")
    ctx.distinct("lock_acquisition_orders", (repr(prog), tuple(order)))
    ctx.distinct("schedules(choice sequences)", tuple(sched.choices or ()))
    inside = sched.yield_counts.get("instr", 0)
    ctx.count("mon.switches_inside_mutators", sched.switches)
    ctx.hist("strategy", strat_kind)
    ctx.hist("threads", nthreads)
    ctx.hist("switches", min(sched.switches // 5 * 5, 50))
    sig_plan = tuple(sorted(plan_of.plan.items())) if plan_of is not None else None
    ctx.case_done(("conc", repr(prog), strat_kind, sseed, sig_plan), shared >= 1 and sched.switches >= 2,
                  {"program": prog, "strategy": strat_kind, "seed": sseed, "switches": sched.switches,
                   "steps": sched.step, "lock_order": order[:12]})


def _bit_in(value, amount):
    """Is the power-of-two `amount` part of `value`?"""
    v, a = int(value), int(amount)
    return v >= 0 and (v & a) == a


def workloads(tier):
    big = tier == "thorough"
    return [WL("sequential", wl_sequential, 400000 if big else 40000),
            WL("track", wl_track, 12000 if big else 1600),
            WL("track_scheduled", wl_track_scheduled, 300000 if big else 12000),
            WL("concurrent", wl_concurrent, 200000 if big else 10000),
            WL("single_preemption_dfs", wl_dfs, 600 if big else 32)]


LEVEL_TEXT = ("Sequential: drives a real Progress through seeded random histories next to a reference model and checks "
              "the accounting identities after every operation. Concurrent: deals histories to 2-8 real threads run "
              "one-at-a-time under a cooperative scheduler with preemption at every line of rich/progress.py and every "
              "bytecode of the mutators; unique power-of-two advance amounts make the final count name the advances "
              "it reflects; the recorded lock-acquisition order is replayed sequentially on the real code and must "
              "reproduce the final state. Explores seeded schedules, it does not enumerate them.")
LEVEL_NOTE = ("Trusted: the cooperative scheduler and lock proxy (rv/sched), which serialise real threads; CPython's "
              "sys.monitoring. Schedules not produced are not covered.")
TECHNIQUE = "runtime monitoring: reference-model monitor after every op; recorded concurrent histories with unique values checked for conservation and linearizability against the lock-acquisition order"
