"""C02 - word wrapping keeps every character, in order, with its own style."""
from rv.core.runner import WL
from rv.monitor.poison import poison_text
from rv.gen import strings as S
from rv.gen import styles as G
from rv.model import cellref
from rv.model import textview as TV

ID = "C02"
LEVEL = "exploration"
RULE = ("styled strings of 0-80 characters whose non-blank characters are UNIQUE within the case (so an output "
        "character names its input offset), with space runs, newlines, tabs, wide and zero-width characters; "
        "0-8 spans drawn to overlap, nest, repeat (equal-valued twins), be empty or extend past the end; widths "
        "2..200 weighted to 2..12; every justify x overflow x no_wrap. A free-repetition share runs the aggregate "
        "oracles only. Non-trivial: wrapping produced >=2 lines and >=1 span crosses a line break; distinct by "
        "(string, spans, width, modes).")
ASSUMPTIONS = ["blanks at the edges of an output line are not compared (padding and justification spaces are new characters); "
               "blanks INSIDE a line, between characters that were neighbours-but-for-blanks in the source, are",
               "an ellipsis added by overflow='ellipsis' is a new character",
               "indentation of a word = the leading whitespace of its source line when it is the first word there"]
REQUIRED = ["mon.fold_sequence", "mon.line_fits", "mon.char_style", "mon.blank_run_style", "mon.wrapped_by_the_console", "mon.word_break_rule", "mon.line_renders"]
MIN_NONTRIVIAL = {"quick": 2000, "thorough": 100000}

JUSTIFY = ["default", "left", "center", "right", "full"]
OVERFLOW = ["fold", "crop", "ellipsis", "ignore"]
_console = None


def console():
    global _console
    if _console is None:
        _console = TV.make_console()
    return _console


def gen_case(rng, unique=True):
    w = S.pick_weights(rng)
    max_len = rng.choice([6, 20, 40, 80])
    if unique:
        pool = S.UniquePool(rng, w)
        text = pool.string(max_len, space=rng.choice([0.1, 0.2, 0.35]), newline=rng.choice([0, 0.04]),
                           tab=rng.choice([0, 0, 0.04]))
    else:
        text = S.free_string(rng, max_len, w, space=0.2, newline=0.03, tab=0.02)
    long_line = not unique and rng.random() < 0.25
    if long_line:
        # a long, almost-ASCII paragraph with a few odd-width / control characters, wrapped at a width close to
        # its own cell length (where one mis-measured cell decides whether the line fits)
        text = S.sparse_odd_string(rng, 40, 160)
    if not unique and rng.random() < 0.02:
        # one unbroken word of more than a thousand characters that has to be folded, with as many double-width as
        # zero-width characters (its cell length equals its character count although no slice need fit)
        k = rng.choice([130, 260, 300])
        chars = ([rng.choice(S.WIDE[:40]) for _ in range(k)] + [rng.choice(S.ZERO[:20]) for _ in range(k)]
                 + [rng.choice(S.ASCII_LETTERS) for _ in range(rng.choice([520, 600]))])
        if rng.random() < 0.5:
            rng.shuffle(chars)
        text = "".join(chars)
        if text[0] in S.ZERO:
            text = "a" + text
    n = len(text)
    spans = []
    palette = [G.rand_record(rng, p_attr=0.1, p_link=0.1) for _ in range(3)]
    for p in palette:
        if G.is_null(p):
            p["attrs"]["italic"] = True
    for _ in range(rng.choice([0, 1, 2, 3, 5, 8])):
        rec = rng.choice(palette) if rng.random() < 0.7 else G.rand_record(rng, p_attr=0.1)
        a = rng.randint(0, n)
        b = rng.randint(a, n + (3 if rng.random() < 0.1 else 0))
        if spans and rng.random() < 0.35:
            _, a2, b2 = rng.choice(spans)
            r = rng.random()
            if r < 0.4:
                a, b = a2, b2
            elif r < 0.7:
                b = b2
                a = rng.randint(0, min(b, n))
            else:
                a = a2
                b = rng.randint(a, n)
        spans.append((rec, a, b))
    base = G.rand_record(rng, p_attr=0.1) if rng.random() < 0.3 else None
    width = rng.choice([2, 2, 3, 3, 4, 5, 6, 7, 8, 10, 12, 12, rng.randint(2, 40), rng.randint(2, 200)])
    if long_line and rng.random() < 0.7:
        width = max(2, cellref.width(text) + rng.choice([-2, -1, 0, 0, 1, 2]))
    return {"text": text, "spans": spans, "base": base, "width": width,
            "justify": rng.choice(JUSTIFY), "overflow": rng.choice(OVERFLOW) if rng.random() < 0.6 else "fold",
            "no_wrap": rng.random() < 0.15, "tab_size": rng.choice([8, 4, 2]), "unique": unique,
            "mode_route": rng.choice(["args", "args", "args", "own", "conflict", "render"]),
            "own_mode": (rng.choice(JUSTIFY), rng.choice(OVERFLOW), rng.random() < 0.3)}


def make_text(case, rng):
    from rich.text import Text, Span
    spans = [Span(a, b, G.build(rec) if rng.random() < 0.5 else G.definition(rec))
             for rec, a, b in case["spans"]]
    base = case["base"]
    t = Text(case["text"], style=G.build(base) if base else "", spans=spans)
    # where the wrapping mode comes from: the arguments of wrap() (default), the Text's own attributes (wrap() is
    # then called without them), or both - differing - in which case the explicit arguments decide
    route = case.get("mode_route", "args")
    if route == "render":
        # the text goes through the console (print / a container): its own justify / overflow / no_wrap - no_wrap
        # explicitly False or True - decide, the options handed down by the caller are the fallback only
        t.justify, t.overflow, t.no_wrap = case["justify"], case["overflow"], bool(case["no_wrap"])
    elif route == "own":
        from rv.gen.specs import _rt
        t.justify, t.overflow, t.no_wrap = _rt(case["justify"]), _rt(case["overflow"]), case["no_wrap"]
    elif route == "conflict":
        t.justify, t.overflow, t.no_wrap = case["own_mode"]
    return t


class RenderedLine:
    """A line as Console.render_lines hands it over, with the little of Text's interface the oracles use."""

    def __init__(self, segments):
        self.segments = [seg for seg in segments if not seg.is_control]
        self.plain = "".join(seg.text for seg in self.segments)
        self.spans = "(rendered through the console)"

    def __len__(self):
        return len(self.plain)

    def render(self, console):
        return iter(self.segments)


def wrap_args(case):
    if case.get("mode_route") == "own":
        return {"justify": None, "overflow": None, "no_wrap": None}
    # (mode names as a program has them at run time - read from a file, lower-cased: equal to the literals, not the
    # interpreter's shared objects for them)
    from rv.gen.specs import _rt
    j = case["justify"]
    return {"justify": _rt(j) if j != "default" else j, "overflow": _rt(case["overflow"]), "no_wrap": case["no_wrap"]}


def nonblank(s):
    return [c for c in s if not c.isspace()]


def classify_style_diff(case):
    # mechanism features, never random values
    j, o = case["justify"], case["overflow"]
    if o == "ignore" and j in ("center", "right"):
        return "overflow-ignore-with-%s-justify" % j
    return "justify=%s,overflow=%s%s" % (j, o, ",no_wrap" if case["no_wrap"] else "")


def wl_wrap(ctx, rng, case_no):
    """One generated text is wrapped under its own mode and then under 1-3 further (justify, overflow, no_wrap)
    combinations at the same width, in random order, in the same process: wrapping must not depend on what was
    wrapped before (memoised break offsets, mutated inputs ...)."""
    case = gen_case(rng, unique=rng.random() < 0.85)
    check_one(ctx, rng, case, primary=True)
    for _ in range(rng.choice([1, 1, 2, 3])):
        other = dict(case, justify=rng.choice(JUSTIFY), overflow=rng.choice(OVERFLOW), no_wrap=rng.random() < 0.15)
        if rng.random() < 0.5:
            other["overflow"] = "fold"
            other["no_wrap"] = False
        check_one(ctx, rng, other, primary=False)


def check_one(ctx, rng, case, primary=True):
    text = make_text(case, rng)
    width = case["width"]
    wit = {"text": case["text"], "spans": [(G.definition(r), a, b) for r, a, b in case["spans"]],
           "base": G.definition(case["base"]) if case["base"] else None, "width": width,
           "justify": case["justify"], "overflow": case["overflow"], "no_wrap": case["no_wrap"],
           "tab_size": case["tab_size"], "mode_route": case.get("mode_route", "args"),
           "text_own_mode(justify, overflow, no_wrap)": case.get("own_mode") if case.get("mode_route") == "conflict" else None}
    before = TV.char_styles(make_text(case, rng), console())
    before_map = {c: v for c, v in before if not c.isspace()}
    if rng.random() < 0.15:
        # an earlier wrap of an equal text whose lines the caller then edits
        first = make_text(case, rng).wrap(console(), width, tab_size=case["tab_size"], **wrap_args(case))
        for line in list(first):
            poison_text(line)
        while len(first):
            first.pop()
        ctx.count("mon.result_poisoning")
    if case.get("mode_route") == "render":
        # (through the console tabs are expanded with the CONSOLE's tab size - 8 - whatever the text's own is)
        case["tab_size"] = 8
        ctx.count("mon.wrapped_by_the_console")
        oj, oo, on = case["own_mode"]
        opts = console().options.update(width=width, justify=oj, overflow=oo, no_wrap=not case["no_wrap"])
        lines = [RenderedLine(l) for l in console().render_lines(text, opts, pad=False)]
    else:
        lines = text.wrap(console(), width, tab_size=case["tab_size"], **wrap_args(case))
    ctx.hist("mode_route", case.get("mode_route", "args"))
    lines = list(lines)
    fold = case["overflow"] == "fold" and not case["no_wrap"]
    ctx.hist("mode", "%s/%s%s" % (case["justify"], case["overflow"], "/no_wrap" if case["no_wrap"] else ""))
    out_chars = []      # (char, vis, line_no)
    render_failed = False
    for ln, line in enumerate(lines):
        ctx.count("mon.line_renders")
        try:
            cs = TV.char_styles(line, console())
        except Exception as e:  # (d) rendering a produced line never raises
            ctx.violation("wrapped-line-render-raises:" + classify_style_diff(case),
                          dict(wit, line=line.plain, line_spans=repr(line.spans), error=repr(e)))
            render_failed = True
            break
        if len(line) != len(line.plain):
            ctx.violation("wrapped-line-len-differs", dict(wit, line=line.plain, len=len(line)))
        out_chars.extend((c, v, ln) for c, v in cs)
        if fold:
            ctx.count("mon.line_fits")
            if cellref.width(line.plain) > width:
                ctx.violation("wrapped-line-too-wide:justify=" + case["justify"],
                              dict(wit, line=line.plain, cells=cellref.width(line.plain)))
    if render_failed:
        if primary:
            ctx.case_done(("w", repr(wit)), False)
        return
    # (a) fold: no drop / duplicate / reorder of non-blank characters
    if fold:
        ctx.count("mon.fold_sequence")
        got = [c for c, _, _ in out_chars if not c.isspace()]
        want = nonblank(case["text"])
        if got != want:
            ctx.violation("fold-changes-character-sequence:justify=" + case["justify"],
                          dict(wit, got="".join(got), want="".join(want), lines=[l.plain for l in lines]))
    if case["unique"]:
        # (b) every mode: each non-blank output character keeps its effective style
        ctx.count("mon.char_style")
        for c, v, ln in out_chars:
            if c.isspace() or c == "…":
                continue
            if c not in before_map:
                ctx.violation("wrap-invents-character", dict(wit, char=c))
                break
            if before_map[c] != v:
                ctx.violation("char-style-changed-by-wrap:" + classify_style_diff(case),
                              dict(wit, char=c, line=ln, got=TV.vis_json(v), want=TV.vis_json(before_map[c]),
                                   lines=[l.plain for l in lines], line_spans=repr(lines[ln].spans)))
                break
        # (b') blanks are characters too: a run of blanks that stays INSIDE an output line (between two characters
        # that were neighbours-but-for-blanks in the source) carries the styles it had - a background colour or an
        # underline across a gap does not vanish because the paragraph was wrapped.  Under 'full' justification
        # blanks are added to a gap; the original ones must still be among them.
        pos_src = {c: i for i, (c, _) in enumerate(before) if not c.isspace()}
        by_line = {}
        for c, v, ln in out_chars:
            by_line.setdefault(ln, []).append((c, v))
        blank_bad = None
        for ln, row in by_line.items():
            last = None
            for j, (c, v) in enumerate(row):
                if c.isspace() or c == "…" or c not in pos_src:
                    continue
                if last is not None and j > last + 1:
                    px, py = pos_src[row[last][0]], pos_src[c]
                    src_run = before[px + 1:py] if py > px else None
                    out_run = row[last + 1:j]
                    if src_run and all(x.isspace() and x not in "\t\n" for x, _ in src_run):
                        ctx.count("mon.blank_run_style")
                        if case["justify"] == "full":
                            pool = [TV.vis_json(x) for _, x in out_run]
                            for _, want_v in src_run:
                                wj = TV.vis_json(want_v)
                                if wj in pool:
                                    pool.remove(wj)
                                else:
                                    blank_bad = (ln, src_run, out_run)
                                    break
                        elif len(out_run) == len(src_run) and [x for _, x in out_run] != [x for _, x in src_run]:
                            blank_bad = (ln, src_run, out_run)
                last = j
                if blank_bad:
                    break
            if blank_bad:
                break
        if blank_bad:
            ln, src_run, out_run = blank_bad
            ctx.violation("blank-style-changed-by-wrap:justify=%s" % case["justify"],
                          dict(wit, line=ln, lines=[l.plain for l in lines],
                               blanks_before=[TV.vis_json(x) for _, x in src_run],
                               blanks_after=[TV.vis_json(x) for _, x in out_run]))
        # (c) fold: a word is broken only when it (with indentation) is wider than the width
        if fold:
            ctx.count("mon.word_break_rule")
            line_of = {}
            for c, _, ln in out_chars:
                if not c.isspace():
                    line_of.setdefault(c, set()).add(ln)
            for src in case["text"].split("\n"):
                src = src.expandtabs(case["tab_size"])
                pos = 0
                first = True
                n = len(src)
                while pos < n:
                    if src[pos].isspace():
                        pos += 1
                        continue
                    end = pos
                    while end < n and not src[end].isspace():
                        end += 1
                    run = src[pos:end]
                    lines_hit = set()
                    for c in run:
                        lines_hit |= line_of.get(c, set())
                    if len(lines_hit) > 1:
                        indent = src[:pos] if first else ""
                        if cellref.width(indent + run) <= width:
                            ctx.violation("word-broken-although-it-fits", dict(
                                wit, word=run, indent_cells=cellref.width(indent),
                                lines=[l.plain for l in lines]))
                    first = False
                    pos = end
    crossing = 0
    if len(lines) >= 2:
        # does some span cover characters on two different output lines?
        pos_line = {}
        for c, _, ln in out_chars:
            pos_line[c] = ln
        for rec, a, b in case["spans"]:
            ls = {pos_line[c] for c in case["text"][a:b] if c in pos_line and not c.isspace()}
            if len(ls) > 1:
                crossing += 1
    ctx.hist("lines", min(len(lines), 10))
    if not primary:
        ctx.count("rewraps_of_same_text_under_other_modes")
    ctx.case_done(("w", repr(wit)), len(lines) >= 2 and crossing >= 1,
                  dict(wit, lines=[l.plain for l in lines]))


def workloads(tier):
    return [WL("wrap", wl_wrap, 2000000 if tier == "thorough" else 80000)]


LEVEL_TEXT = ("Runs the real Text.wrap on seeded random styled strings with self-identifying (unique) characters and "
              "checks, per case, the character sequence, line widths (reference width table), the per-character "
              "effective style by lookup, and the word-break rule; every justify/overflow/no_wrap combination is "
              "drawn. Held = no refuting observation on the cases produced.")
LEVEL_NOTE = "Trusted: the reference width table; Text.render for reading effective styles (decided by C05)."
TECHNIQUE = "runtime monitoring: unique-character bijection oracle + per-character style lookup on the real wrap output"
