"""C18 - colour down-conversion stays in gamut, is idempotent and picks the nearest entry."""
from rv.core.runner import WL
from rv.model import palette_ref, docs_colors

ID = "C18"
LEVEL = "exploration"
RULE = ("quick: every RGB colour on a 17^3 grid + all channel-edge combinations + seeded random "
        "colours, all 256 indexed colours, default, each x {standard, 256, truecolor, windows} x fg/bg; "
        "thorough: ALL 16,777,216 RGB colours x 3 lower systems (exhaustive, sharded by red channel). "
        "Every colour is a distinct case; a case is non-trivial when the conversion changed the colour.")
ASSUMPTIONS = ["STANDARD_PALETTE / WINDOWS_PALETTE contents are data (the 16 target entries); the 8-bit "
               "palette is cross-checked against docs/source/appendix/colors.rst and the xterm definition",
               "the metric is Rich's weighted-RGB 'redmean' formula, re-coded independently"]
REQUIRED = ["mon.rendered_conversion", "mon.rule_256", "mon.rendered_default_over_colour", "mon.constructor_route", "mon.downgrade", "mon.idempotent", "mon.argmin", "mon.ansi_codes", "mon.grey", "mon.palette_row", "mon.palettes_shown_before", "mon.saturation_boundary"]
MIN_NONTRIVIAL = {"quick": 5000, "thorough": 1000000}
EXHAUSTIVE = {"quick": False, "thorough": True}


def _api():
    from rich.color import Color, ColorSystem, ColorType
    from rich.color_triplet import ColorTriplet
    from rich import _palettes
    return Color, ColorSystem, ColorType, ColorTriplet, _palettes


_KIND = None


def _kind(ColorType, t):
    return {ColorType.DEFAULT: "default", ColorType.STANDARD: "standard",
            ColorType.EIGHT_BIT: "eight_bit", ColorType.TRUECOLOR: "truecolor",
            ColorType.WINDOWS: "windows"}[t]


def check_color(ctx, color, api, pal, nontrivial_sig=None):
    Color, ColorSystem, ColorType, ColorTriplet, _ = api
    std, win, p256 = pal
    src_kind = _kind(ColorType, color.type)
    changed = False
    for system in (ColorSystem.STANDARD, ColorSystem.EIGHT_BIT, ColorSystem.TRUECOLOR,
                   ColorSystem.WINDOWS):
        # bypass the lru_cache so that a poisoned cache cannot hide the function's answer, and also
        # call through it so that the cache cannot change the answer
        out = color.downgrade(system)
        uncached = getattr(Color.downgrade, "__wrapped__", None)
        raw = uncached(color, system) if uncached is not None else out
        ctx.count("mon.downgrade")
        wit = {"color": repr(color), "triplet": color.triplet, "number": color.number,
               "system": system.name, "out": repr(out), "out_number": out.number}
        if out != raw:
            ctx.violation("downgrade-cache-changes-result", wit)
        kind = _kind(ColorType, out.type)
        # --- default stays default
        if src_kind == "default":
            if kind != "default":
                ctx.violation("default-not-preserved", wit)
            continue
        # --- representable => unchanged
        rank = {"standard": 1, "windows": 1, "eight_bit": 2, "truecolor": 3}
        sys_rank = {ColorSystem.STANDARD: 1, ColorSystem.WINDOWS: 1, ColorSystem.EIGHT_BIT: 2,
                    ColorSystem.TRUECOLOR: 3}[system]
        if rank[src_kind] < sys_rank or (rank[src_kind] == sys_rank and int(color.type) == int(system)):
            if (out.type, out.number, out.triplet) != (color.type, color.number, color.triplet):
                ctx.violation("representable-colour-changed", wit)
            continue
        changed = True
        # --- in gamut
        ok = True
        if system == ColorSystem.STANDARD:
            ok = kind == "standard" and isinstance(out.number, int) and 0 <= out.number < 16
        elif system == ColorSystem.WINDOWS:
            ok = kind == "windows" and isinstance(out.number, int) and 0 <= out.number < 16
        elif system == ColorSystem.EIGHT_BIT:
            ok = kind in ("eight_bit", "standard") and isinstance(out.number, int) and 0 <= out.number < 256
            if ok and kind == "eight_bit" and out.number < 16:
                ok = True
        else:
            ok = True
        if not ok or (kind != "truecolor" and out.triplet is not None):
            ctx.violation("out-of-gamut:%s" % system.name, wit)
            continue
        # --- idempotent
        again = out.downgrade(system)
        ctx.count("mon.idempotent")
        if (again.type, again.number, again.triplet) != (out.type, out.number, out.triplet):
            ctx.violation("not-idempotent:%s" % system.name, dict(wit, again=repr(again)))
        # --- nearest entry for 16-colour targets
        if system in (ColorSystem.STANDARD, ColorSystem.WINDOWS):
            if src_kind == "truecolor":
                rgb = tuple(color.triplet)
            elif src_kind == "eight_bit" and color.number >= 16:
                rgb = p256[color.number]
            elif src_kind == "eight_bit":
                # an EIGHT_BIT-typed colour below 16 is not produced by any parsing / from_ansi route (those give
                # STANDARD); what the 16-colour conversions do with one is not asserted
                rgb = None
            elif src_kind in ("standard", "windows") and color.number < 16:
                # same 16 indices, other palette: the index is kept (documented for 8-bit < 16)
                rgb = None
            if rgb is not None:
                palette = std if system == ColorSystem.STANDARD else win
                best = palette_ref.min_dist2(rgb, palette)
                got = palette_ref.dist2(rgb, palette[out.number])
                ctx.count("mon.argmin")
                if got != best:
                    ctx.violation("not-nearest:%s" % system.name,
                                  dict(wit, rgb=rgb, got_d2=got, best_d2=best))
        # --- greys to 256 land on the ramp or black / white; every colour where the documented rule puts it
        if system == ColorSystem.EIGHT_BIT and src_kind == "truecolor":
            r, g, b = color.triplet
            ctx.count("mon.rule_256")
            want256 = palette_ref.to_256(r, g, b)
            if out.number != want256:
                ctx.violation("truecolor-to-256-not-by-the-documented-rule", dict(wit, want_number=want256))
            if r == g == b:
                ctx.count("mon.grey")
                if not (out.number in (16, 231) or 232 <= out.number <= 255):
                    ctx.violation("grey-off-ramp", wit)
    # --- the conversion as rendering performs it: a Style with this colour rendered for each colour system writes
    # the standard parameters of the converted colour (foreground then background)
    from rich.style import Style
    for system in (ColorSystem.STANDARD, ColorSystem.EIGHT_BIT, ColorSystem.TRUECOLOR, ColorSystem.WINDOWS):
        if src_kind == "default":
            break
        down = color.downgrade(system)
        k = _kind(ColorType, down.type)
        want = (palette_ref.sgr_params(k, down.number, tuple(down.triplet) if down.triplet else None, True)
                + palette_ref.sgr_params(k, down.number, tuple(down.triplet) if down.triplet else None, False))
        out = Style(color=color, bgcolor=color).render("x", color_system=system)
        ctx.count("mon.rendered_conversion")
        got = tuple(out[2:out.index("m")].split(";")) if out.startswith("\x1b[") else ()
        if got != tuple(str(x) for x in want):
            ctx.violation("rendered-sgr-differs-from-converted-colour:%s" % system.name,
                          {"color": repr(color), "system": system.name, "rendered": out, "want": want,
                           "converted": repr(down)})
        # "the default colour stays default", as rendering sees it: the style just rendered, combined with a style that
        # only resets the background (the foreground) to the default, writes the converted colour next to 49 (39)
        base = Style(color=color, bgcolor=color)
        base.render("x", color_system=system)
        fgp = palette_ref.sgr_params(k, down.number, tuple(down.triplet) if down.triplet else None, True)
        bgp = palette_ref.sgr_params(k, down.number, tuple(down.triplet) if down.triplet else None, False)
        for which, derived, want2 in (("bgcolor", base + Style(bgcolor="default"), fgp + ("49",)),
                                      ("color", base + Style(color="default"), ("39",) + bgp)):
            out = derived.render("x", color_system=system)
            ctx.count("mon.rendered_default_over_colour")
            got = tuple(out[2:out.index("m")].split(";")) if out.startswith("\x1b[") else ()
            if got != tuple(str(x) for x in want2):
                ctx.violation("default-%s-over-a-rendered-colour-does-not-render-as-default:%s" % (which, system.name),
                              {"color": repr(color), "system": system.name, "rendered": out, "want": want2})
    # --- SGR parameters of the colour itself and of each conversion
    for fg in (True, False):
        for c in (color, color.downgrade(ColorSystem.STANDARD), color.downgrade(ColorSystem.EIGHT_BIT),
                  color.downgrade(ColorSystem.WINDOWS)):
            k = _kind(ColorType, c.type)
            want = palette_ref.sgr_params(k, c.number, tuple(c.triplet) if c.triplet else None, fg)
            got = tuple(getattr(Color.get_ansi_codes, "__wrapped__", Color.get_ansi_codes)(c, fg))
            got_cached = tuple(c.get_ansi_codes(foreground=fg))
            ctx.count("mon.ansi_codes")
            if got != want or got_cached != want:
                ctx.violation("wrong-sgr-parameters:%s" % k,
                              {"color": repr(c), "number": c.number, "triplet": c.triplet,
                               "foreground": fg, "got": got, "got_cached": got_cached, "want": want})
    return changed


_PALETTE_SNAPSHOT = {}


def _palettes(api):
    """The three palettes AS DATA, read once per process before anything else touches them (the tables are module-level
    objects of the library; see _show_palettes)."""
    if not _PALETTE_SNAPSHOT:
        _, _, _, _, P = api
        _PALETTE_SNAPSHOT["std"] = [tuple(P.STANDARD_PALETTE[i]) for i in range(16)]
        _PALETTE_SNAPSHOT["win"] = [tuple(P.WINDOWS_PALETTE[i]) for i in range(16)]
        _PALETTE_SNAPSHOT["p256"] = [tuple(P.EIGHT_BIT_PALETTE[i]) for i in range(256)]
    return _PALETTE_SNAPSHOT["std"], _PALETTE_SNAPSHOT["win"], _PALETTE_SNAPSHOT["p256"]


def _show_palettes(ctx, api):
    """History: the program has displayed the palettes (they are renderables: console.print(palette) draws a table
    of swatches).  Looking at a palette must not change what conversions do afterwards."""
    import io
    from rich.console import Console
    _, _, _, _, P = api
    c = Console(file=io.StringIO(), width=100, color_system="truecolor", force_terminal=True, _environ={})
    for pal in (P.STANDARD_PALETTE, P.EIGHT_BIT_PALETTE, P.WINDOWS_PALETTE):
        c.print(pal)
        pal.__rich__()
    ctx.count("mon.palettes_shown_before")


def wl_palette(ctx):
    """The 8-bit palette used for 8-bit -> 16 conversion against two independent sources - on every shard, and on the
    odd ones after the palettes have been displayed."""
    api = _api()
    _palettes(api)
    if ctx.shard % 2:
        _show_palettes(ctx, api)
    _, _, _, _, P = api
    std, win = _palettes(api)[:2]
    p256 = [tuple(P.EIGHT_BIT_PALETTE[i]) for i in range(256)]          # the live table, now
    for name, snap, live in (("STANDARD", std, P.STANDARD_PALETTE), ("WINDOWS", win, P.WINDOWS_PALETTE)):
        if [tuple(live[i]) for i in range(16)] != snap:
            ctx.violation("palette-changed-by-displaying-it:" + name, {"now": [tuple(live[i]) for i in range(16)]})
    ref = palette_ref.xterm256()
    for number, name, rgb in docs_colors.rows():
        ctx.count("mon.palette_row")
        if rgb is not None and p256[number] != rgb:
            ctx.violation("eight-bit-palette-differs-from-docs",
                          {"number": number, "name": name, "palette": p256[number], "docs": rgb})
    for i in range(16, 256):
        ctx.count("mon.palette_row")
        if p256[i] != ref[i]:
            ctx.violation("eight-bit-palette-differs-from-xterm-definition",
                          {"number": i, "palette": p256[i], "xterm": ref[i]})
    ctx.evaluations += 256


def _triplet_color(api, r, g, b):
    Color, _, ColorType, ColorTriplet, _ = api
    return Color.from_triplet(ColorTriplet(r, g, b))


def wl_indexed(ctx):
    api = _api()
    Color = api[0]
    pal = _palettes(api)
    if ctx.shard == 0:
        check_color(ctx, Color.default(), api, pal)
        check_color(ctx, Color.parse("default"), api, pal)
        ctx.case_done(("default",), True, {"color": "default"})
    for n in range(ctx.shard, 256, ctx.nshards):
        for c in (Color.from_ansi(n), Color.parse("color(%d)" % n)):
            ch = check_color(ctx, c, api, pal)
        ctx.case_done(("idx", n), True, {"color": "color(%d)" % n, "to_standard": c.downgrade(api[1].STANDARD).number})
    # windows-typed colours too
    ColorType = api[2]
    for n in range(ctx.shard, 16, ctx.nshards):
        check_color(ctx, Color("w%d" % n, ColorType.WINDOWS, number=n), api, pal)
        ctx.case_done(("win", n), True, None)
    ctx.mark_exhaustive("indexed", len(range(ctx.shard, 256, ctx.nshards)))


def wl_grid(ctx):
    api = _api()
    pal = _palettes(api)
    steps = list(range(0, 256, 16)) + [255]
    edges = [0, 1, 2, 7, 8, 9, 47, 48, 94, 95, 96, 114, 115, 116, 127, 128, 135, 155, 175, 195, 215,
             235, 238, 239, 243, 247, 248, 249, 253, 254, 255]
    k = 0
    for r in steps:
        for g in steps:
            for b in steps:
                k += 1
                if k % ctx.nshards != ctx.shard:
                    continue
                ch = check_color(ctx, _triplet_color(api, r, g, b), api, pal)
                ctx.case_done(("rgb", r, g, b), ch, {"rgb": (r, g, b)})
    for r in edges:
        for g in edges:
            for b in edges:
                k += 1
                if k % ctx.nshards != ctx.shard:
                    continue
                ch = check_color(ctx, _triplet_color(api, r, g, b), api, pal)
                ctx.case_done(("rgb", r, g, b), ch, None)
    # the colours at the edge of the grey test (saturation exactly one tenth)
    for r, g, b in palette_ref.saturation_boundary_colours():
        k += 1
        if k % ctx.nshards != ctx.shard:
            continue
        ch = check_color(ctx, _triplet_color(api, r, g, b), api, pal)
        ctx.count("mon.saturation_boundary")
        ctx.case_done(("rgb", r, g, b), ch, None)
    # greys, all 256
    for v in range(ctx.shard, 256, ctx.nshards):
        check_color(ctx, _triplet_color(api, v, v, v), api, pal)
        ctx.case_done(("rgb", v, v, v), True, {"grey": v})
    ctx.hist("grid", "points", k // ctx.nshards)


def wl_midpoints(ctx):
    """Colours on and around the segment between every pair of entries of the two 16-colour palettes, dense near the
    point where the nearest entry changes: where an argmin with a wrong shortcut goes wrong."""
    api = _api()
    pal = _palettes(api)
    std, win, _ = pal
    k = 0
    for palette in (std, win):
        for i in range(16):
            for j in range(i + 1, 16):
                k += 1
                if k % ctx.nshards != ctx.shard:
                    continue
                a, b = palette[i], palette[j]
                for t in range(0, 41):
                    f = t / 40.0
                    base = [a[c] + (b[c] - a[c]) * f for c in range(3)]
                    for d in ((0, 0, 0), (3, 0, 0), (0, -3, 0), (0, 0, 5), (-2, 2, -2)):
                        rgb = tuple(max(0, min(255, int(round(base[c] + d[c])))) for c in range(3))
                        ch = check_color(ctx, _triplet_color(api, *rgb), api, pal)
                        ctx.case_done(("rgb",) + rgb, ch, None)
    ctx.hist("midpoint_pairs", "done", k // ctx.nshards)


def wl_random(ctx, rng, case_no):
    api = _api()
    pal = _palettes(api)
    Color = api[0]
    r, g, b = rng.randrange(256), rng.randrange(256), rng.randrange(256)
    if rng.random() < 0.3:  # near-grey, where the saturation threshold decides
        d = rng.randint(0, 30)
        g = max(0, min(255, r + rng.randint(-d, d)))
        b = max(0, min(255, r + rng.randint(-d, d)))
    route = rng.randrange(5)
    if route == 4:
        c = Color.from_rgb(float(r), g, b + 0.5) if rng.random() < 0.5 else Color.from_rgb(r, g, b)   # floats are truncated
    elif route == 0:
        c = _triplet_color(api, r, g, b)
    elif route == 1:
        c = Color.parse("#%02x%02x%02x" % (r, g, b))
    elif route == 2:
        c = Color.parse("rgb(%d,%d,%d)" % (r, g, b))
    else:
        # the public constructor: the name is whatever the program calls the colour (a theme role, a name another
        # colour also has) - the value is the triplet / number
        ColorType, ColorTriplet = api[2], api[3]
        name = rng.choice(["accent", "accent", "warning", "red", "#000000", "color(1)", "default", ""])
        if rng.random() < 0.8:
            c = Color(name, ColorType.TRUECOLOR, triplet=ColorTriplet(r, g, b))
        elif rng.random() < 0.5:
            c = Color(name, ColorType.EIGHT_BIT, number=16 + r % 240)
        else:
            # an indexed colour that also carries the RGB value of its index (c._replace(triplet=c.get_truecolor())):
            # its kind is still what its type says
            n = 16 + r % 240
            c = Color(name, ColorType.EIGHT_BIT, number=n, triplet=ColorTriplet(*pal[2][n]))
        ctx.count("mon.constructor_route")
    ch = check_color(ctx, c, api, pal)
    ctx.case_done(("rgb", r, g, b), ch, {"rgb": (r, g, b), "route": route})


def wl_all_rgb(ctx):
    """Exhaustive: all 2^24 colours; red channel dealt to shards."""
    api = _api()
    Color, ColorSystem, ColorType, ColorTriplet, _ = api
    std, win, p256 = _palettes(api)
    dist2, STD, EB, WIN = palette_ref.dist2, ColorSystem.STANDARD, ColorSystem.EIGHT_BIT, ColorSystem.WINDOWS
    downgrade = getattr(Color.downgrade, "__wrapped__", Color.downgrade)
    n = 0
    import time
    for r in range(ctx.shard, 256, ctx.nshards):
        for g in range(256):
            for b in range(256):
                rgb = (r, g, b)
                c = Color("x", ColorType.TRUECOLOR, None, ColorTriplet(r, g, b))
                n += 1
                for system, palette, kind in ((STD, std, ColorType.STANDARD), (WIN, win, ColorType.WINDOWS)):
                    o = downgrade(c, system)
                    num = o.number
                    if o.type != kind or not (0 <= num < 16) or o.triplet is not None:
                        ctx.violation("out-of-gamut:%s" % system.name, {"rgb": rgb, "out": repr(o)})
                        continue
                    got = dist2(rgb, palette[num])
                    if got != min(dist2(rgb, p) for p in palette):
                        ctx.violation("not-nearest:%s" % system.name, {"rgb": rgb, "out_number": num})
                    if downgrade(o, system) != o:
                        ctx.violation("not-idempotent:%s" % system.name, {"rgb": rgb})
                o = downgrade(c, EB)
                num = o.number
                if o.type != ColorType.EIGHT_BIT or not (16 <= num < 256) or o.triplet is not None:
                    ctx.violation("out-of-gamut:EIGHT_BIT", {"rgb": rgb, "out": repr(o), "out_number": num})
                elif r == g == b and not (num in (16, 231) or 232 <= num <= 255):
                    ctx.violation("grey-off-ramp", {"rgb": rgb, "out_number": num})
                elif num != palette_ref.to_256(r, g, b):
                    ctx.violation("truecolor-to-256-not-by-the-documented-rule", {"rgb": rgb, "out_number": num,
                                                                                  "want_number": palette_ref.to_256(r, g, b)})
                elif downgrade(o, EB) != o:
                    ctx.violation("not-idempotent:EIGHT_BIT", {"rgb": rgb})
        ctx.count("mon.downgrade", 65536 * 3)
        ctx.count("mon.argmin", 65536 * 2)
        ctx.count("mon.idempotent", 65536 * 3)
        ctx.count("red_planes_done")
    ctx.evaluations += n
    ctx.mark_exhaustive("rgb24", n)
    # distinct non-trivial: every colour is distinct and is converted (changed) by construction
    ctx.nontrivial.update(range(ctx.shard << 40, (ctx.shard << 40) + n))


def workloads(tier):
    wl = [WL("palette", wl_palette, kind="custom"),
          WL("indexed", wl_indexed, kind="custom"),
          WL("grid", wl_grid, kind="custom"),
          WL("palette_pair_midpoints", wl_midpoints, kind="custom"),
          WL("random", wl_random, 600000 if tier == "thorough" else 60000)]
    if tier == "thorough":
        wl.append(WL("all_rgb", wl_all_rgb, kind="custom"))
    return wl


LEVEL_TEXT = ("Runs the real Color.downgrade / get_ansi_codes. Thorough tier enumerates ALL 2^24 RGB colours "
              "x {standard, 256, windows} plus all indexed colours and default (exhaustive over the stated "
              "finite input space); quick tier explores a 17^3 grid, channel edges near every rounding "
              "boundary, all greys, all indexed colours and seeded random colours.")
LEVEL_NOTE = ("Trusted: the 16-entry target palettes as data; the metric formula (re-coded); the docs colour "
              "table and the xterm palette definition used to cross-check the 8-bit palette.")
TECHNIQUE = "runtime monitoring: independent argmin/gamut/idempotence oracle evaluated on every conversion; exhaustive 2^24 sweep in thorough"
