"""C05 - Text editing operations keep characters and styles attached."""
from rv.core.runner import WL
from rv.gen import strings as S
from rv.gen import styles as G
from rv.model import cellref
from rv.model import textmodel as M
from rv.model import textview as TV

ID = "C05"
LEVEL = "exploration"
RULE = ("random histories of <=12 editing operations (construct incl. stripped control characters, append "
        "str/Text, append_text, append_tokens, assemble, join, +, split, divide, [i], [a:b], pad*, align, "
        "truncate, right_crop, set_length, expand_tabs, rstrip, rstrip_end, remove_suffix, copy, stylize, "
        "highlight_regex, highlight_words, copy_styles, ReprHighlighter) applied to a real Text and to a "
        "list-of-(char, style layers) reference model; compared after EVERY operation. Non-trivial: >=3 "
        "operations ran and some character carried >=1 style layer; distinct by operation log.")
ASSUMPTIONS = ["string semantics of each operation as coded in rv/model/textmodel.py (Python str methods, "
               "cell-based cropping per the reference width table)",
               "styles of characters newly created by padding, truncation and tab expansion are not constrained"]
REQUIRED = ["mon.history_after_constructor_spans_beyond_the_end", "mon.plain", "mon.len", "mon.char_styles", "mon.style_only_ops", "mon.aliasing", "mon.len_unobserved", "mon.unobserved_history_end"]
MIN_NONTRIVIAL = {"quick": 3000, "thorough": 100000}

_console = None


def console():
    global _console
    if _console is None:
        _console = TV.make_console()
    return _console


def rand_style(rng):
    rec = G.rand_record(rng, p_attr=rng.choice([0.05, 0.12]), p_fg=0.5, p_bg=0.25, p_link=0.08)
    if G.is_null(rec):
        rec["attrs"]["bold"] = True
    return rec


def real_style(rng, rec):
    if rec is None:
        return ""
    return G.build(rec) if rng.random() < 0.5 else G.definition(rec, rng)


def rand_text(rng, max_len=12, controls=0.0, tabs=0.05, newlines=0.06):
    w = S.pick_weights(rng)
    s = S.free_string(rng, max_len, w, space=0.18, newline=newlines, tab=tabs)
    if controls and rng.random() < controls:
        pos = rng.randint(0, len(s))
        s = s[:pos] + rng.choice(M.STRIP) + s[pos:]
    return s


def build_pair(rng, max_len=10, controls=0.0):
    """(real Text, model) built through constructor + stylize."""
    from rich.text import Text
    s = rand_text(rng, max_len, controls)
    base = rand_style(rng) if rng.random() < 0.4 else None
    tab = rng.choice([8, 8, 8, 8, 4, 2, 3, 1])
    own_overflow = rng.choice([None, None, None, "fold", "crop", "ellipsis", "ignore"])
    t = Text(s, style=real_style(rng, base)) if tab == 8 and own_overflow is None and rng.random() < 0.7 else \
        Text(s, style=real_style(rng, base), tab_size=tab, overflow=own_overflow)
    m = M.TM.from_str(s, base)
    m.tab = tab
    m.overflow = own_overflow
    applied = []
    # a small palette of styles re-used within the case, and span ends aligned with earlier spans:
    # equal-valued spans (and pieces of spans that become equal-valued after a split) expose
    # ordering-by-value bugs
    palette = [(rand_style(rng), rng.random() < 0.5) for _ in range(2)]
    for _ in range(rng.randint(0, 5)):
        n = len(m)
        if rng.random() < 0.55:
            rec, how = rng.choice(palette)
        else:
            rec, how = rand_style(rng), rng.random() < 0.5
        a = rng.randint(0, n)
        b = rng.randint(a, n)
        if applied:
            r = rng.random()
            if r < 0.25:
                a, b = rng.choice(applied)[1:3]
            elif r < 0.5:
                b = rng.choice(applied)[2]
                a = rng.randint(0, b)
            elif r < 0.6:
                a = rng.choice(applied)[1]
                b = rng.randint(a, n)
        if b > a:
            t.stylize(G.build(rec) if how else G.definition(rec), a, b)
            m.stylize_range(rec, a, b)
            applied.append((rec, a, b, how))
    return t, m


_UNOBSERVED = [False]


def compare(ctx, t, m, log, op):
    """The monitor: after every operation."""
    if _UNOBSERVED[0]:
        # a history whose intermediate values nobody looks at: reading `plain`, comparing, rendering all make the
        # text consolidate its internal pieces, so a run that looks after every step can never see what a program
        # that just keeps editing sees.  Only len() is asked here; the full comparison comes at the end of the run.
        ctx.count("mon.len_unobserved")
        if len(t) != len(m.plain):
            ctx.violation("len-differs-after:%s:in-a-history-nobody-looked-at" % op, {"log": log, "len": len(t), "want": len(m.plain)})
            return False
        return True
    ctx.count("mon.plain")
    if t.plain != m.plain:
        ctx.violation("plain-differs-after:" + op, {"log": log, "plain": t.plain, "model": m.plain})
        return False
    ctx.count("mon.len")
    if len(t) != len(m.plain):
        ctx.violation("len-differs-after:" + op, {"log": log, "len": len(t), "plain": t.plain})
        return False
    ctx.count("mon.char_styles")
    got = TV.char_styles(t, console())
    want = m.expected_vis()
    if len(got) != len(want):
        ctx.violation("render-length-differs-after:" + op, {"log": log, "got": len(got), "want": len(want)})
        return False
    for i, ((gc, gv), (wc, wv)) in enumerate(zip(got, want)):
        if gc != wc:
            ctx.violation("render-char-differs-after:" + op, {"log": log, "index": i})
            return False
        if wv is not None and gv != wv:
            ctx.violation("char-style-differs-after:" + op,
                          {"log": log, "index": i, "char": gc, "got": TV.vis_json(gv), "want": TV.vis_json(wv),
                           "plain": t.plain, "spans": repr(t.spans), "base": str(t.style)})
            return False
    return True


def step(ctx, rng, t, m, log):
    """Apply one random operation to the real Text and the model. Returns (t, m, opname, ok)."""
    from rich.text import Text
    n = len(m)
    ops = ["append_str", "append_str", "append_text", "append_text_method", "append_tokens", "add",
           "join", "split", "divide", "index", "slice", "pad", "pad_left", "pad_right", "align", "truncate",
           "right_crop", "set_length", "expand_tabs", "rstrip", "rstrip_end", "remove_suffix", "copy",
           "stylize", "stylize", "highlight_regex", "highlight_words", "copy_styles", "assemble", "plain_set",
           "repr_highlight", "fit"]
    op = rng.choice(ops)
    before_plain = m.plain
    style_only = False
    if op == "append_str" and rng.random() < 0.1:
        # a run of equal characters (a later split at two of them meets a separator that overlaps itself)
        s = rng.choice(["a", " ", "x", "-"]) * rng.choice([3, 4, 5])
        log.append([op, s, None])
        t.append(s)
        m.append_str(s, None)
    elif op == "append_str":
        s = rand_text(rng, 6, controls=0.25)
        rec = rand_style(rng) if rng.random() < 0.6 else None
        log.append([op, s, G.definition(rec) if rec else None])
        t.append(s, real_style(rng, rec) if rec else None)
        m.append_str(s, rec)
    elif op in ("append_text", "append_text_method", "add") and rng.random() < 0.08:
        # the text appended to itself ("double it"): the copy carries the styles the original had at that moment
        log.append([op, "SELF"])
        m2 = m.copy()
        import signal

        def _hang(signum, frame):
            raise TimeoutError("appending a Text to itself did not return within 5 s")
        old_handler = signal.signal(signal.SIGALRM, _hang)
        signal.setitimer(signal.ITIMER_REAL, 5)
        try:
            if op == "append_text":
                t.append(t)
            elif op == "append_text_method":
                t.append_text(t)
            else:
                t = t + t
        finally:
            signal.setitimer(signal.ITIMER_REAL, 0)
            signal.signal(signal.SIGALRM, old_handler)
        m.append_tm(m2)
    elif op in ("append_text", "append_text_method", "add"):
        t2, m2 = build_pair(rng, 6)
        log.append([op, m2.plain, repr(t2.spans), str(t2.style)])
        if op == "append_text":
            t.append(t2)
        elif op == "append_text_method":
            t.append_text(t2)
        else:
            t = t + t2
        m.append_tm(m2)
    elif op == "append_tokens":
        toks, mtoks = [], []
        for _ in range(rng.randint(0, 3)):
            s = rand_text(rng, 5, controls=0.2)
            rec = rand_style(rng) if rng.random() < 0.6 else None
            toks.append((s, real_style(rng, rec) if rec else None))
            mtoks.append((s, rec))
        log.append([op, [(s, G.definition(r) if r else None) for s, r in mtoks]])
        t.append_tokens(_as_iterable(rng, toks, log))
        for s, rec in mtoks:
            m.append_str(s, rec)        # (control codes Text strips are stripped from tokens too)
    elif op == "assemble":
        parts, mparts = [], []
        base = rand_style(rng) if rng.random() < 0.4 else None
        newm = M.TM([], base)
        # first part: the current text itself
        parts.append(t)
        newm.append_tm(m)
        for _ in range(rng.randint(0, 3)):
            r = rng.random()
            if r < 0.35:
                s = rand_text(rng, 5, controls=0.2)
                parts.append(s)
                newm.append_str(s)
            elif r < 0.7:
                s = rand_text(rng, 5)
                rec = rand_style(rng)
                parts.append((s, real_style(rng, rec)))
                newm.append_str(s, rec)
            else:
                t2, m2 = build_pair(rng, 5)
                parts.append(t2)
                newm.append_tm(m2)
        own_tab = rng.choice([None, None, 2, 3, 4, 16])
        log.append([op, len(parts), G.definition(base) if base else None, {"tab_size": own_tab}])
        if own_tab is None:
            t = Text.assemble(*parts, style=real_style(rng, base))
            m = newm
        else:
            # the assembled text is given a tab size of its own and expands its tabs with it (no argument)
            t = Text.assemble(*parts, style=real_style(rng, base), tab_size=own_tab)
            m = newm
            if t.tab_size != own_tab:
                ctx.violation("assemble-ignores-an-option:tab_size", {"log": log, "got": t.tab_size, "want": own_tab})
            t.expand_tabs()
            m.expand_tabs(own_tab)
            m.tab = own_tab
    elif op == "join":
        sep_t, sep_m = build_pair(rng, rng.choice([0, 1, 2]))
        others = [build_pair(rng, 5) for _ in range(rng.randint(0, 2))]
        pos = rng.randint(0, len(others))
        pieces = others[:pos] + [(t, m)] + others[pos:]
        log.append([op, sep_m.plain, [p[1].plain for p in pieces]])
        t = sep_t.join(_as_iterable(rng, [p[0] for p in pieces], log))
        # every character keeps the effective style it had: the separator's own (base) style belongs to the separators,
        # not to the texts that are joined (the model used to mirror the library, which spread it over the whole result)
        newm = M.TM([], None, sep_m.tab, sep_m.overflow)
        for k, (_, pm) in enumerate(pieces):
            if k and sep_m.plain:
                newm.append_tm(sep_m)
            newm.append_tm(pm)
        m = newm
    elif op == "split":
        sep = rng.choice(["\n", "\n", " ", ",", "ab", "\t", "  "])
        if rng.random() < 0.3 and n:
            sep = m.plain[rng.randrange(n)]
        runs = [c for c in ("a", " ", "x", "-") if c * 3 in m.plain]
        if runs and rng.random() < 0.6:
            # a separator that overlaps itself in the text: a run of >= 3 equal characters split at two of them
            sep = rng.choice(runs) * 2
        incl = rng.random() < 0.4
        blank = rng.random() < 0.4
        log.append([op, sep, incl, blank])
        lines = t.split(sep, include_separator=incl, allow_blank=blank)
        if sep not in m.plain:
            bounds = [(0, n)]
        else:
            bounds = M.split_bounds(m.plain, sep, incl, blank)
        mp = m.pieces(bounds)
        return _choose_piece(ctx, rng, lines, mp, log, op)
    elif op == "divide":
        k = rng.randint(0, 4)
        offsets = sorted(rng.choice([0, n, rng.randint(0, n), rng.randint(0, n), n + rng.randint(0, 3)]) for _ in range(k))
        given = list(offsets)
        if rng.random() < 0.2:
            # the same positions counted from the end (negative indices, as in a slice)
            given = [o - n if o < n and rng.random() < 0.6 else o for o in offsets]
        log.append([op, given])
        lines = t.divide(_as_iterable(rng, given, log))
        if not offsets:
            bounds = [(0, n)]
        else:
            cuts = [0] + [min(o, n) for o in offsets] + [n]
            bounds = list(zip(cuts, cuts[1:]))
        return _choose_piece(ctx, rng, lines, m.pieces(bounds), log, op)
    elif op == "fit":
        width = rng.randint(1, 12)
        log.append([op, width])
        lines = t.fit(width)
        if "\n" not in m.plain:
            bounds = [(0, n)]
        else:
            bounds = M.split_bounds(m.plain, "\n", False, False)
        mp = m.pieces(bounds)
        for p in mp:
            if len(p) < width:
                p.pad_right(width - len(p))
            else:
                p.crop_to(width)
        return _choose_piece(ctx, rng, lines, mp, log, op)
    elif op == "index":
        i = rng.randint(-n - 1, n) if n else rng.randint(-1, 1)
        log.append([op, i])
        try:
            ch = m.plain[i]
        except IndexError:
            try:
                t[i]
            except IndexError:
                return t, m, op, True
            ctx.violation("index-out-of-range-accepted", {"log": log})
            return t, m, op, False
        t = t[i]
        m = M.TM([m.chars[i]], m.base, m.tab, m.overflow)
    elif op == "slice":
        a = rng.choice([None, rng.randint(-n - 2, n + 2)])
        b = rng.choice([None, rng.randint(-n - 2, n + 2)])
        log.append([op, a, b])
        t = t[a:b]
        m = M.TM(m.chars[slice(a, b)], m.base, m.tab, m.overflow)
    elif op in ("pad", "pad_left", "pad_right"):
        count = rng.choice([0, 1, 2, 5])
        ch = rng.choice([" ", " ", "-", "漢", rng.choice(M.STRIP)])
        log.append([op, count, ch])
        getattr(t, op)(count, ch)
        if ch in M.STRIP:
            count = 0          # a fill character that Text strips from its content adds nothing (and moves nothing)
        if op in ("pad", "pad_left"):
            m.pad_left(count, ch)
        if op in ("pad", "pad_right"):
            m.pad_right(count, ch)
    elif op == "align":
        how = rng.choice(["left", "center", "right"])
        width = rng.randint(0, max(3, m.cells() + 4))
        ch = rng.choice([" ", "*"])
        log.append([op, how, width, ch])
        # (align cuts a text that is too long with the text's OWN overflow method)
        if (m.overflow == "ellipsis") and width == 0:
            width = 1
        t.align(how, width, ch)
        m.truncate(width, m.overflow or "fold")
        excess = width - m.cells()
        if excess > 0:
            if how == "left":
                m.pad_right(excess, ch)
            elif how == "center":
                m.pad_left(excess // 2, ch)
                m.pad_right(excess - excess // 2, ch)
            else:
                m.pad_left(excess, ch)
    elif op == "truncate":
        overflow = rng.choice(["fold", "crop", "ellipsis", "ignore"])
        width = rng.randint(1 if overflow == "ellipsis" else 0, max(3, m.cells() + 3))
        pad = rng.random() < 0.4
        if rng.random() < 0.35 and not (m.overflow == "ellipsis" and width == 0):
            # without an overflow argument: the text's own method (the one it was built with or inherited)
            log.append([op, width, "(own: %s)" % m.overflow, pad])
            t.truncate(width, pad=pad)
            m.truncate(width, m.overflow or "fold", pad)
        else:
            log.append([op, width, overflow, pad])
            t.truncate(width, overflow=overflow, pad=pad)
            m.truncate(width, overflow, pad)
    elif op == "right_crop":
        amount = rng.choice([0, 1, 1, 2, n, n + 1, n + 3, rng.randint(0, n + 1), -1, -n - 2])
        log.append([op, amount])
        t.right_crop(amount)
        m.crop_to(min(n, max(0, n - amount)))      # (a negative amount removes nothing)
    elif op == "set_length":
        new = rng.choice([0, n, n + 1, n + 4, max(0, n - 1), rng.randint(0, n + 3)])
        log.append([op, new])
        t.set_length(new)
        if new < n:
            m.crop_to(new)
        else:
            m.pad_right(new - n)
    elif op == "expand_tabs":
        ts = rng.choice([None, 1, 2, 4, 8])
        log.append([op, ts])
        # (without an argument: the text's own tab size - the one it was built with, or inherited from the text it
        # was derived from)
        t.expand_tabs(ts)
        m.expand_tabs(ts or m.tab)
    elif op == "rstrip":
        log.append([op])
        t.rstrip()
        m.rstrip()
    elif op == "rstrip_end":
        size = rng.randint(0, n + 1)
        log.append([op, size])
        t.rstrip_end(size)
        # "remove whitespace beyond a certain width": the width is measured in cells
        cells = m.cells()
        if cells > size:
            ws = n - len(m.plain.rstrip())
            m.crop_to(n - min(ws, cells - size))
    elif op == "remove_suffix":
        k = rng.randint(0, min(3, n))
        suffix = m.plain[n - k:] if rng.random() < 0.7 else "zz"
        log.append([op, suffix])
        t.remove_suffix(suffix)
        if suffix and m.plain.endswith(suffix):
            m.crop_to(n - len(suffix))
    elif op == "copy":
        how = rng.choice(["Text.copy", "Text.copy", "copy.deepcopy", "pickle", "copy.copy"])
        log.append([op, how])
        if how == "Text.copy":
            t = t.copy()
        elif how == "copy.copy":
            import copy as _copy
            t = _copy.copy(t)
        elif how == "copy.deepcopy":
            import copy as _copy
            t = _copy.deepcopy(t)
        else:
            import pickle as _pickle
            t = _pickle.loads(_pickle.dumps(t))
        m = m.copy()
    elif op == "plain_set":
        # assigning a shorter / longer plain string: spans are trimmed, characters replaced
        k = rng.randint(0, n + 2)
        tail = "xyz" if rng.random() < 0.8 else "x" + rng.choice(M.STRIP) + "z"
        new = (m.plain + tail)[:k]
        log.append([op, new])
        t.plain = new
        if k <= n:
            m.crop_to(k)
        else:
            m.chars.extend((c, None) for c in new[n:] if c not in M.STRIP)     # (stripped like everywhere else)
    elif op == "stylize":
        rec = rand_style(rng)
        a = rng.choice([0, rng.randint(-n - 2, n + 2)])
        b = rng.choice([None, rng.randint(-n - 2, n + 2)])
        log.append([op, G.definition(rec), a, b])
        t.stylize(real_style(rng, rec), a, b)
        m.stylize(rec, a, b)
        style_only = True
    elif op == "highlight_regex":
        rec = rand_style(rng)
        pat = rng.choice([r"\w+", r"\s+", r"[a-m]+", r"\d", r".", r"\S\S", r"(?P<x>a)|b"])
        log.append([op, pat, G.definition(rec)])
        import re
        named = "(?P<" in pat
        if not named:
            t.highlight_regex(pat, real_style(rng, rec))
            for mt in re.finditer(pat, m.plain):
                if mt.end() > mt.start():
                    m.stylize_range(rec, mt.start(), mt.end())
        else:
            # named groups become style names: unknown names style nothing (default null)
            t.highlight_regex(pat, style_prefix="nosuchstyle.")
        style_only = True
    elif op == "highlight_words":
        words = []
        p = m.plain
        for _ in range(rng.randint(1, 3)):
            if p and rng.random() < 0.7:
                a = rng.randrange(len(p))
                w = p[a:a + rng.randint(1, 3)]
            else:
                w = rng.choice(["a", "b", "X."])
            if w:
                words.append(w)
        rec = rand_style(rng)
        cs = rng.random() < 0.7
        log.append([op, words, G.definition(rec), cs])
        if words:
            import re
            t.highlight_words(_as_iterable(rng, words, log), real_style(rng, rec), case_sensitive=cs)
            pat = "|".join(re.escape(w) for w in words)
            for mt in re.finditer(pat, m.plain, flags=0 if cs else re.IGNORECASE):
                m.stylize_range(rec, mt.start(), mt.end())
        style_only = True
    elif op == "copy_styles":
        other = Text(m.plain)
        recs = []
        for _ in range(rng.randint(0, 3)):
            rec = rand_style(rng)
            a = rng.randint(0, n)
            b = rng.randint(a, n)
            if b > a:
                other.stylize(real_style(rng, rec), a, b)
                recs.append((rec, a, b))
        log.append([op, [(G.definition(r), a, b) for r, a, b in recs]])
        t.copy_styles(other)
        for rec, a, b in recs:
            m.stylize_range(rec, a, b)
        style_only = True
    elif op == "repr_highlight":
        from rich.highlighter import ReprHighlighter
        log.append([op])
        ReprHighlighter().highlight(t)
        # theme styles are not modelled: styles become "don't care", characters stay tracked
        m.chars = [(c, None) for c, _ in m.chars]
        style_only = True
    if style_only and not _UNOBSERVED[0]:
        ctx.count("mon.style_only_ops")
        if t.plain != before_plain:
            ctx.violation("style-only-op-changed-characters:" + op,
                          {"log": log, "before": before_plain, "after": t.plain})
            return t, m, op, False
    ok = compare(ctx, t, m, log, op)
    return t, m, op, ok


def _choose_piece(ctx, rng, lines, mpieces, log, op):
    lines = list(lines)
    if len(lines) != len(mpieces) or [l.plain for l in lines] != [p.plain for p in mpieces]:
        ctx.violation("pieces-differ-after:" + op, {"log": log, "got": [l.plain for l in lines],
                                                    "want": [p.plain for p in mpieces]})
        return None, None, op, False
    ok = True
    for l, p in zip(lines, mpieces):
        ok = compare(ctx, l, p, log, op) and ok
        if not ok:
            break
    if not lines:
        from rich.text import Text
        return Text(""), M.TM([], None), op, ok
    i = rng.randrange(len(lines))
    log[-1].append({"continue_on": i})
    return lines[i], mpieces[i], op, ok


def _as_iterable(rng, items, log):
    """The parameter is declared Iterable[...]: hand it over as a list, a tuple, or a one-shot iterator / generator
    (what `x.join(f(p) for p in parts)` passes)."""
    r = rng.random()
    if r < 0.5:
        return list(items)
    if r < 0.6:
        return tuple(items)
    log[-1].append("passed-as-one-shot-iterator")
    if r < 0.8:
        return iter(list(items))
    return (x for x in list(items))


DERIVING_OPS = {"split", "divide", "fit", "index", "slice", "copy", "add", "join", "assemble"}


def wl_histories(ctx, rng, case_no):
    t, m = build_pair(rng, 14, controls=0.25)
    sibling = None
    if rng.random() < 0.15:
        # the spans handed to the constructor as a list - the same list object to a second Text - with some spans
        # reaching or lying beyond the end of the text
        from rich.text import Span, Text
        extra = []
        for _ in range(rng.randint(0, 2)):
            rec = rand_style(rng)
            a = len(m) + rng.randint(0, 4)
            extra.append(Span(a, a + rng.randint(0, 5), G.build(rec)))
        if extra:
            # (spans beyond the end style nothing; what they would do to characters appended LATER is nobody's
            # contract, so this text is only looked at, not edited)
            probe = Text(m.plain, style=t.style, spans=list(t.spans) + extra)
            if not compare(ctx, probe, m, [["construct", m.plain, repr(probe.spans), str(probe.style)]], "construct"):
                ctx.case_done(("h", repr(probe.spans), m.plain), False)
                return
        # the history goes on with a text that was handed such spans: they style nothing now, and characters that
        # arrive later (append, pad, set_length ...) are not theirs either - every character keeps the style it had
        shared = list(t.spans) + (extra if case_no % 2 else [])
        if extra and case_no % 2:
            ctx.count("mon.history_after_constructor_spans_beyond_the_end")
        t = Text(m.plain, style=t.style, spans=shared, tab_size=m.tab, overflow=m.overflow)
        sib = Text("sibling text!", spans=shared)
        sibling = (sib, [Span(s.start, s.end, s.style) for s in sib.spans])
    log = [["construct", m.plain, repr(t.spans), str(t.style)] + (["spans-list-shared-with-a-second-Text"] if sibling else [])]
    if not compare(ctx, t, m, log, "construct"):
        ctx.case_done(("h", repr(log)), False)
        return
    nops = rng.randint(1, 12)
    done = 0
    unobserved = sibling is None and rng.random() < 0.2
    if unobserved:
        log.append(["(from here on the intermediate values are not looked at: only len() after every step)"])
    retired = []        # (Text, model) pairs that an operation derived a NEW value from: they must not change any more
    for _ in range(nops):
        before_t, before_m = t, m.copy()
        _UNOBSERVED[0] = unobserved
        try:
            t, m, op, ok = step(ctx, rng, t, m, log)
        finally:
            _UNOBSERVED[0] = False
        ctx.hist("ops", op)
        done += 1
        if not ok or t is None:
            break
        if sibling is not None and sibling[0].spans != sibling[1]:
            ctx.violation("edit-of-one-Text-changed-another-built-from-the-same-spans-list:" + op,
                          {"log": log, "sibling_spans_now": repr(sibling[0].spans), "were": repr(sibling[1])})
            break
        if op in DERIVING_OPS and t is not before_t:
            # the operation returned new object(s): the source keeps its value whatever is done to the result
            # afterwards (aliasing check)
            retired.append((before_t, before_m))
            del retired[:-3]
        elif op in DERIVING_OPS and op != "index":
            # (an out-of-range [i] raises IndexError and leaves the text as it is; every other deriving operation is
            # documented to return new Text instances)
            ctx.violation("derived-object-is-the-source-object:" + op, {"log": log})
            break
        elif retired:
            ctx.count("mon.aliasing")
            for rt, rm in retired:
                if rt is t:
                    continue
                if rt.plain != rm.plain or len(rt) != len(rm.plain) or \
                        [v for _, v in TV.char_styles(rt, console())] != [
                            v if v is not None else gv for (_, v), (_, gv) in
                            zip(rm.expected_vis(), TV.char_styles(rt, console()))]:
                    ctx.violation("source-changed-by-edit-of-derived-object:" + op,
                                  {"log": log, "source_plain_now": rt.plain, "source_plain_expected": rm.plain})
                    ok = False
                    break
            if not ok:
                break
    if unobserved and ok and t is not None and done:
        ctx.count("mon.unobserved_history_end")
        compare(ctx, t, m, log, "a-history-nobody-looked-at")
    if m is None:           # (a violation inside a Lines-producing step ended the history)
        ctx.case_done(("h", repr(log)), False)
        return
    layered = any(l for _, l in m.chars if l) or m.base is not None
    ctx.hist("history_len", done)
    ctx.case_done(("h", repr(log)), done >= 3 and layered, {"log": log, "final_plain": m.plain})


def workloads(tier):
    return [WL("histories", wl_histories, 1500000 if tier == "thorough" else 100000)]


LEVEL_TEXT = ("Runs the real rich.text.Text through seeded random operation histories next to a small reference "
              "model and compares plain text, len() and the per-character effective style (read from "
              "Text.render) after every single operation; style-only operations are additionally checked to "
              "leave the characters untouched.")
LEVEL_NOTE = ("Trusted: the reference model (rv/model/textmodel.py, string semantics), the reference width table "
              "for cell-based cropping, console.get_style for resolving definitions.")
TECHNIQUE = "runtime monitoring: reference-model monitor (list of (char, style layers)) driven with the same operation history, compared after every step"
