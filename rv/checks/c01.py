"""C01 - rendered output never exceeds the available width."""
import json

from rv.core.runner import WL
from rv.gen import specs as SP
from rv.model import cellref, consoles

ID = "C01"
LEVEL = "exploration"
RULE = ("random renderable-tree specs (depth <=4: text, rule, bar, progress bar, panel, padding, align, constrain, "
        "styled, group, columns, tree, table with every layout option; tables restricted to columns free to wrap; "
        "text overflow in fold/crop/ellipsis) built FRESH per evaluation and rendered with Console.render at widths "
        "m, m+1, m+2, m+3, two random in [m,200], 80, 200 where m is the written-down structural minimum; console "
        "legacy_windows and ascii-only both ways. Non-trivial: depth >=2 and some line reaches W or the output has "
        "more lines than the tree has leaves (something wrapped); distinct by (spec, width, console flags).")
ASSUMPTIONS = ["structural minimum m(spec) as defined in rv/gen/specs.py:structural_min (DESIGN section 3.4), erring upward",
               "a ProgressBar is an inline renderable (no newline): it may only be the last child of a group",
               "Text with overflow='ignore' is excluded: it is documented not to be truncated"]
REQUIRED = ["mon.render_after_edit", "mon.line_width", "mon.render", "mon.render_with_options_narrower_than_console", "mon.render_through_print_width"]
MIN_NONTRIVIAL = {"quick": 3000, "thorough": 200000}


def features(spec):
    """Mechanism features of a spec for classification of an overflow."""
    f = []

    def walk(s):
        if s["k"] == "table":
            if s["leading"] >= 2 and s["box"]:
                f.append("table-leading>=2-with-box")
        for key in ("child",):
            if key in s:
                walk(s[key])
        for key in ("children", "items"):
            for c in s.get(key, []):
                walk(c)
        if s["k"] == "table":
            for c in s["columns"]:
                walk(c["header"])
                walk(c["footer"])
            for r in s["rows"]:
                for c in r["cells"]:
                    walk(c)
        if s["k"] == "tree":
            def tw(n):
                walk(n["label"])
                for c in n["children"]:
                    tw(c)
            tw(s["root"])
    walk(spec)
    return sorted(set(f))


def wl_trees(ctx, rng, case_no):
    spec = SP.gen_spec(rng, depth=rng.choice([1, 2, 3, 4]), profile={"vcenter": True})
    m = SP.structural_min(spec)
    if m > 200:
        ctx.count("skipped_m_gt_200")
        return
    widths = sorted({m, m + 1, m + 2, m + 3, rng.randint(m, 200), rng.randint(m, 200), 80, 200})
    widths = [w for w in widths if m <= w <= 200]
    legacy = rng.random() < 0.2
    ascii_only = rng.random() < 0.2
    kinds = SP.kinds(spec)
    d = SP.depth(spec)
    for k in kinds:
        ctx.hist("kinds", k)
    # half of the cases render ONE object at all widths in turn (a renderable is rendered again and again by Live
    # displays and by containers that measure and then render): the bound must hold on every render, not only on the
    # first one of a fresh object
    reuse = rng.random() < 0.5
    shared = SP.build(spec) if reuse else None
    if reuse:
        rng.shuffle(widths)
    for W in widths:
        # "W cells available" reaches a renderable as options; a third of the renders hand W down on a WIDER console
        # (how every container renders its children): whoever looks at the console's width instead shows here
        wider = rng.choice([0, 0, 1, 40])
        console = consoles.layout_console(W + wider, legacy=legacy, ascii_only=ascii_only)
        obj = shared if reuse else SP.build(spec)
        if reuse:
            ctx.count("re_renders_of_one_object")
        ctx.count("mon.render")
        if wider:
            ctx.count("mon.render_with_options_narrower_than_console")
        via_print = wider and rng.random() < 0.4
        if via_print:
            # the documented way to give a renderable fewer cells than the console has: print(..., width=W) - with or
            # without a style for the whole print; print crops at the CONSOLE's width only, so every line must fit W
            from rv.model import sgr
            ctx.count("mon.render_through_print_width")
            pstyle = rng.choice([None, None, "bold", "on blue", "none"])
            console.print(obj, width=W, style=pstyle)
            out = sgr.decode(console.file.getvalue()).text
            lines = out.split("\n")
            if lines and lines[-1] == "":
                lines.pop()
            line_widths = [cellref.width(l) for l in lines]
        else:
            line_widths, lines = SP.render_lines_cells(console, obj, console.options.update(width=W) if wider else None)
        ctx.count("mon.line_width", len(line_widths))
        worst = max(line_widths or [0])
        ctx.hist("width_minus_m", min(W - m, 10))
        if worst > W:
            i = line_widths.index(worst)
            feats = features(spec)
            mech = "line-wider-than-available:" + ("+".join(feats) if feats else "top=%s" % spec["k"])
            ctx.violation(mech, {"spec": spec, "width": W, "structural_min": m, "line": lines[i],
                                 "line_cells": worst, "legacy_windows": legacy, "ascii_only": ascii_only, "console_wider_than_options_by": wider, "through_print(width=W)": bool(via_print),
                                 "same_object_rendered_before_at": [w for w in widths[:widths.index(W)]] if reuse else None})
        sig = (json.dumps(spec, sort_keys=True, ensure_ascii=False, default=str), W, legacy, ascii_only)
        ctx.case_done(sig, d >= 2 and (worst >= W or len(lines) > 3),
                      {"spec": spec, "width": W, "m": m, "max_line": worst, "lines": len(lines)})


def _edit_top(rng, spec):
    """An edit of documented public attributes of the TOP renderable: (spec after the edit, function applying it to the
    object built from the spec before the edit).  Only options the quantifier lists; values from the generator's ranges."""
    from rich import box as _box
    k = spec["k"]
    new = dict(spec)
    sets = []
    if k == "table":
        for name in rng.sample(["box", "show_edge", "show_header", "show_footer", "show_lines", "leading", "pad_edge",
                                "collapse_padding", "padding", "expand"], rng.choice([1, 1, 2, 3])):
            if name == "box":
                new["box"] = rng.choice([b for b in SP.BOX_NAMES + [None] if b != spec["box"]])
                sets.append(("box", getattr(_box, new["box"]) if new["box"] else None))
            elif name == "leading":
                new["leading"] = rng.choice([v for v in (0, 1, 2, 3) if v != spec["leading"]])
                sets.append(("leading", new["leading"]))
            elif name == "padding":
                new["padding"] = SP.rand_pad(rng)
                sets.append(("padding", new["padding"]))
            else:
                new[name] = not spec[name]
                sets.append((name, new[name]))
    elif k == "panel":
        for name in rng.sample(["box", "padding", "expand"], rng.choice([1, 2])):
            if name == "box":
                new["box"] = rng.choice([b for b in SP.BOX_NAMES if b != spec["box"]])
                sets.append(("box", getattr(_box, new["box"])))
            elif name == "padding":
                new["padding"] = SP.rand_pad(rng)
                sets.append(("padding", new["padding"]))
            else:
                new["expand"] = not spec["expand"]
                sets.append(("expand", new["expand"]))
    elif k == "padding":
        pad = SP.rand_pad(rng)
        new["pad"] = pad
        top, right, bottom, left = SP.unpack_pad(pad)
        sets += [("top", top), ("right", right), ("bottom", bottom), ("left", left)]
    elif k == "columns":
        for name in rng.sample(["equal", "expand", "column_first", "right_to_left"], rng.choice([1, 2])):
            new[name] = not spec[name]
            sets.append((name, new[name]))
    else:
        return None, None

    def apply(obj):
        for name, value in sets:
            setattr(obj, name, value)
    return new, apply


def wl_edited(ctx, rng, case_no):
    """An object that has been used (measured, rendered) and is then EDITED through its public attributes before it is
    rendered again: the bound is a statement about the object as it is when it is rendered - whatever an earlier
    measurement or render may have left behind in it must not count."""
    from rich.measure import Measurement
    kind = rng.choice(["table", "table", "table", "panel", "padding", "columns"])
    for _ in range(40):
        spec = SP.gen_spec(rng, depth=rng.choice([1, 2, 3]), profile={"vcenter": True})
        if spec["k"] == kind:
            break
    else:
        return
    if spec["k"] == "panel" and not spec["expand"]:
        spec = dict(spec, expand=True)       # (Panel.fit is a constructor route of its own; the edit flips `expand`)
    after, apply = _edit_top(rng, spec)
    if after is None:
        return
    m = max(SP.structural_min(spec), SP.structural_min(after))
    if m > 200:
        return
    obj = SP.build(spec)
    for W in sorted({m, m + 1, m + 2, rng.randint(m, 200), 80}):
        if W < m or W > 200:
            continue
        console = consoles.layout_console(W, legacy=False, ascii_only=False)
        uses = []
        for _ in range(rng.choice([1, 1, 2])):
            use = rng.choice(["measure", "measure", "render", "fit"])
            uses.append(use)
            if use == "measure":
                Measurement.get(console, obj, W)
            elif use == "render":
                SP.render_lines_cells(console, obj)
            else:
                from rich.panel import Panel
                SP.render_lines_cells(console, Panel.fit(obj, padding=0))
        apply(obj)
        ctx.count("mon.render_after_edit")
        line_widths, lines = SP.render_lines_cells(console, obj)
        worst = max(line_widths or [0])
        ctx.count("mon.line_width", len(line_widths))
        if worst > W:
            i = line_widths.index(worst)
            ctx.violation("line-wider-than-available:object-edited-after-use:top=%s" % spec["k"],
                          {"spec_before": spec, "spec_after": after, "uses_before_edit": uses, "width": W,
                           "structural_min": m, "line": lines[i], "line_cells": worst})
            break
        ctx.case_done(("e", json.dumps(after, sort_keys=True, ensure_ascii=False, default=str), W), worst >= W or len(lines) > 3,
                      {"spec_after": after, "width": W, "uses": uses})
        # (the next width starts from the edited object: edit it back first, after another use)
        spec, after = after, spec

        def apply(o, _b=after):            # noqa: E731 - back to the other spec's values
            from rich import box as _box
            for name in ("show_edge", "show_header", "show_footer", "show_lines", "leading", "pad_edge",
                         "collapse_padding", "padding", "expand", "equal", "column_first", "right_to_left"):
                if name in _b and hasattr(o, name):
                    setattr(o, name, _b[name])
            if "box" in _b and hasattr(o, "box"):
                o.box = getattr(_box, _b["box"]) if _b["box"] else None
            if _b["k"] == "padding":
                o.top, o.right, o.bottom, o.left = SP.unpack_pad(_b["pad"])


def workloads(tier):
    return [WL("trees", wl_trees, 300000 if tier == "thorough" else 16000),
            WL("edited_after_use", wl_edited, 100000 if tier == "thorough" else 5000)]


LEVEL_TEXT = ("Renders freshly built random renderable trees through the real Console.render at the structural minimum, "
              "just above it, at random widths and at 80/200, and measures every produced line with the reference "
              "width table; Console.print is not used because its final crop would mask an overflowing child.")
LEVEL_NOTE = "Trusted: the reference width table; the structural-minimum rule (a too-small m would cause a false alarm, so it errs upward)."
TECHNIQUE = "runtime monitoring: line-width invariant checked on the Segment stream of every generated (tree, width) render"
