"""C19 - the ANSI decoder inverts the encoder, and redirected output is never lost."""
import io

from rv.core.runner import WL
from rv.monitor.poison import poison_text
from rv.gen import strings as S
from rv.gen import styles as G
from rv.model import palette_ref, sgr
from rv.model import textview as TV

ID = "C19"
LEVEL = "exploration"
RULE = ("(A) styled Texts (spans over the full style space) printed on a truecolor terminal console, the file "
        "decoded by the real AnsiDecoder and compared per character with the expectation record; (B) streams of "
        "1-8 lines (SGR-styled by an independent encoder, OSC-8 links, wide characters, styles left open across "
        "newlines, a low-weight class with non-SGR CSI sequences, markup-looking text, emoji codes, digits) cut "
        "into write() chunks at arbitrary points (inside lines, inside escape sequences, empty writes, many "
        "newlines) with flush() interleaved, through a real FileProxy. Non-trivial: (A) >=1 span; (B) >=2 chunks "
        "and >=1 cut inside a line. Distinct by (text, spans) / (stream, cut points, flushes).")
ASSUMPTIONS = ["a flush is issued only at a point that is not inside an escape sequence (programs flush after "
               "complete writes); cuts between write() calls may fall anywhere",
               "the console is wider than the longest generated line, so word-wrap cannot split a line",
               "carriage returns and the control characters Text strips are kept out of the streams",
               "a newline added by flush after the pending partial line is accepted"]
REQUIRED = ["mon.live_redirect_sessions", "mon.live_redirect_chars", "mon.roundtrip_chars", "mon.proxy_chars", "mon.proxy_histories", "mon.flush_with_pending", "mon.proxy_narrow_console"]
MIN_NONTRIVIAL = {"quick": 4000, "thorough": 200000}


def _vis_to_model(v):
    """textview vis -> comparable (on, fg, bg, link) with colours by value."""
    return v


def wl_roundtrip(ctx, rng, case_no):
    from rich.ansi import AnsiDecoder
    from rich.console import Console
    from rich.text import Text
    console = Console(file=io.StringIO(), width=2000, color_system="truecolor", force_terminal=True,
                      legacy_windows=False, _environ={})
    w = S.pick_weights(rng)
    s = S.free_string(rng, 40, w, space=0.15, newline=0.05, min_len=1)
    odd_sep = False
    if rng.random() < 0.05:
        # characters that str.splitlines() takes for line ends and a terminal does not (Text keeps them: they are
        # printed, so they are part of what has to come back)
        pos = rng.randint(0, len(s))
        s = s[:pos] + rng.choice(["\x1c", "\x1d", "\x1e", "\x85", "\u2028", "\u2029"]) + s[pos:]
        odd_sep = True
    n = len(s)
    layers = [[] for _ in range(n)]
    t = Text(s, end="")
    spans = []
    colors = G.related_colorspecs(rng) if rng.random() < 0.35 else None
    for _ in range(rng.randint(0, 6)):
        rec = G.rand_record(rng, p_link=0.25, colors=colors, p_fg=0.8 if colors else 0.5, p_bg=0.6 if colors else 0.35)
        if rec["link"] and rng.random() < 0.12:
            # a target with a character in it that some terminals take for the END of the hyperlink sequence (BEL) or
            # that looks like the beginning of one: the encoder writes it as it is, the decoder must read it back
            pos = rng.randint(0, len(rec["link"]))
            rec["link"] = rec["link"][:pos] + rng.choice(["\x07", "\x07", "]8;;", "\\", ";"]) + rec["link"][pos:]
        a = rng.randint(0, n)
        b = rng.randint(a, n)
        if b > a:
            t.stylize(G.build(rec), a, b)
            spans.append((G.definition(rec), a, b))
            for i in range(a, b):
                layers[i].append(rec)
    console.print(t, crop=False, no_wrap=True, overflow="ignore", end="")
    stream = console.file.getvalue()
    if rng.random() < 0.2:
        for line in list(AnsiDecoder().decode(stream)):
            poison_text(line)        # a caller edits what an earlier decode of the same stream returned
        ctx.count("mon.result_poisoning")
    decoder = AnsiDecoder()
    lines = list(decoder.decode(stream))
    reader = TV.make_console()
    got = []
    for k, line in enumerate(lines):
        if k:
            got.append(("\n", None))
        got.extend(TV.char_styles(line, reader))
    want = []
    for i, ch in enumerate(s):
        want.append((ch, TV.vis_of_record(TV.fold_records(layers[i]))))
    if s.endswith("\n"):
        # str.splitlines() does not produce a final empty line
        want = want[:-1]
    wit = {"text": s, "spans": spans, "stream": stream}
    if "".join(c for c, _ in got) != "".join(c for c, _ in want):
        ctx.violation("roundtrip-characters-differ" + (":separator-that-only-str.splitlines-knows" if odd_sep else ""),
                      dict(wit, got="".join(c for c, _ in got)))
    else:
        for i, ((gc, gv), (wc, wv)) in enumerate(zip(got, want)):
            if gc == "\n":
                continue
            ctx.count("mon.roundtrip_chars")
            if gv != wv:
                fields = [nm for nm, a, b in zip(("attrs", "fg", "bg", "link"), gv, wv) if a != b]
                ctx.violation("roundtrip-%s-differs" % "+".join(fields),
                              dict(wit, index=i, char=gc, got=TV.vis_json(gv), want=TV.vis_json(wv)))
                break
    ctx.case_done(("rt", s, repr(spans)), len(spans) >= 1, wit)


# --------------------------------------------------------------------------------------------
ATTR_CODE = {"bold": 1, "dim": 2, "italic": 3, "underline": 4, "blink": 5, "blink2": 6, "reverse": 7,
             "conceal": 8, "strike": 9, "underline2": 21, "frame": 51, "encircle": 52, "overline": 53}


def encode(rec):
    """Independent SGR encoder: (prefix, suffix) for a record."""
    params = [str(ATTR_CODE[a]) for a, v in rec["attrs"].items() if v]
    for spec, fg in ((rec["fg"], True), (rec["bg"], False)):
        if spec is not None:
            kind, number, triplet = G.expected_color(spec)
            params.extend(palette_ref.sgr_params(kind, number, triplet, fg))
    pre = "\x1b[%sm" % ";".join(params) if params else ""
    suf = "\x1b[0m" if params else ""
    if rec["link"]:
        pre = "\x1b]8;;%s\x1b\\" % rec["link"] + pre
        suf = suf + "\x1b]8;;\x1b\\"
    return pre, suf


MARKUPISH = ["[info]", "[/b]", "[bold]x[/bold]", "[red]", "[/]", "\\[", ":smile:", ":warning:", "[1, 2, 3]",
             "'quoted'", "True None", "http://example.org/x"]
OTHER_CSI = ["\x1b[2K", "\x1b[1A", "\x1b[?25l", "\x1b[10;20H", "\x1b[K", "\x1b[2J"]


HIGHLIGHTISH = ["12345", " 3.14 ", "True", "None", "'quoted string'", "http://example.org/x?y=1", "<Tag attr=1>",
                "/usr/lib/file.py", "key=value", "0xff", "(1, 2)", "127.0.0.1", "1e10", "b'x'", "Tag(x=1)", "{'k': [1, None]}"]


def gen_stream(rng):
    w = S.pick_weights(rng)
    S.drop_zero(w)
    lines = []
    features = set()
    open_style = False
    colors = G.related_colorspecs(rng) if rng.random() < 0.35 else None
    if colors:
        features.add("related_colours")
    for _ in range(rng.randint(1, 8)):
        parts = []
        for _ in range(rng.randint(0, 5)):
            r = rng.random()
            text = S.free_string(rng, rng.choice([1, 4, 12]), w, space=0.15, min_len=1)
            if r < 0.45:
                parts.append(text)
            elif r < 0.80:
                rec = G.rand_record(rng, p_link=0.15, colors=colors, p_fg=0.8 if colors else 0.5,
                                    p_bg=0.6 if colors else 0.35)
                pre, suf = encode(rec)
                if rng.random() < 0.1:
                    suf = suf.replace("\x1b[0m", "\x1b[m")   # the short form of reset
                    features.add("short_reset")
                if rng.random() < 0.12 and not rec["link"]:
                    suf = ""            # style left open: carries over the newline
                    features.add("open_style")
                parts.append(pre + text + suf)
                features.add("sgr")
            elif r < 0.84:
                # a hyperlink whose text is partly coloured: the SGR reset inside the link ends the colour, not the link
                # (what `ls --hyperlink --color` and compilers write)
                rec = G.rand_record(rng, p_link=0.0, colors=colors, p_fg=0.9)
                pre, suf = encode(rec)
                url = G.rand_url(rng)
                tail = S.free_string(rng, 6, w, space=0.1, min_len=1)
                parts.append("\x1b]8;;%s\x1b\\" % url + pre + text + suf + tail + "\x1b]8;;\x1b\\")
                features.add("reset_inside_link")
            elif r < 0.90:
                # (text a console would treat specially if it were not told otherwise: markup tags, emoji codes - and
                # what the default highlighter colours: numbers, constants, quoted strings, URLs, paths, tags, key=value)
                parts.append(rng.choice(MARKUPISH + HIGHLIGHTISH))
                features.add("markupish")
            elif r < 0.95:
                parts.append(rng.choice(OTHER_CSI) + text)
                features.add("other_csi")
            else:
                parts.append("")
        lines.append("".join(parts))
    if rng.random() < 0.1:
        # a line that is rewritten in place (a percentage, a spinner): "...text<CR>new text".  What comes after the
        # last carriage return is the line; the escape sequences written before it still apply to it.
        k = rng.randrange(len(lines))
        rec = G.rand_record(rng, p_link=0.1, colors=colors, p_fg=0.9)
        pre, suf = encode(rec)
        a = S.free_string(rng, 8, w, space=0.1, min_len=1)
        b = S.free_string(rng, 8, w, space=0.1, min_len=1)
        lines[k] = rng.choice([pre + a + "\r" + b + suf, a + "\r" + pre + b + suf, pre + a + suf + "\r" + b,
                               pre + a + "\r" + a + "\r" + b + suf]) + lines[k]
        features.add("carriage_return_inside_line")
    if rng.random() < 0.12:
        # lines that end in CR LF (what a child process on Windows, or a network protocol dump, writes): the CR
        # before the line feed moves nothing visible
        lines = [l + "\r" if (l and rng.random() < 0.7) else l for l in lines]
        features.add("crlf")
    stream = "\n".join(lines) + ("\n" if rng.random() < 0.8 else "")
    return stream, features


def _after_carriage_returns(line):
    """The line as a terminal that starts it on an empty row shows it once it is complete (the redirect prints whole
    lines): a CR directly before the line end is part of the line end; text before any other CR is overwritten - the
    model keeps what follows the last one - while the escape sequences before it have been obeyed."""
    import re
    body = line[:-1] if line.endswith("\n") else line
    body = body.rstrip("\r")
    if "\r" in body:
        head, _, tail = body.rpartition("\r")
        body = "".join(m.group(0) for m in re.finditer(r"\x1b\[[0-?]*[ -/]*[@-~]|\x1b\].*?\x1b\\", head)) + tail
    return body + ("\n" if line.endswith("\n") else "")


def escape_spans(stream):
    """Index ranges [a, b) of escape sequences in the stream (for 'flush not inside an escape')."""
    import re
    return [m.span() for m in re.finditer(r"\x1b\[[0-?]*[ -/]*[@-~]|\x1b\].*?\x1b\\", stream)]


def wl_fileproxy(ctx, rng, case_no):
    from rich.console import Console
    from rich.file_proxy import FileProxy
    stream, features = gen_stream(rng)
    n = len(stream)
    # one case in seven: a console NARROWER than the lines (what is written is folded onto further rows, nothing is cut
    # off - "complete" is then judged on the sequence of non-blank characters)
    narrow = rng.random() < 0.15
    console = Console(file=io.StringIO(), width=rng.choice([12, 20, 40]) if narrow else 4000, color_system="truecolor",
                      force_terminal=True, legacy_windows=False, _environ={})
    proxy = FileProxy(console, io.StringIO())
    # cut points
    k = rng.choice([0, 1, 2, 4, 8, 16])
    cuts = sorted(rng.randint(0, n) for _ in range(k))
    bounds = [0] + cuts + [n]
    esc = escape_spans(stream)
    ops = []
    # (a flush that falls INSIDE an escape sequence - the program flushes between two writes that cut one - is generated
    # for a small share of the cases only: what it does is a recorded known finding)
    flush_in_escape = rng.random() < 0.04
    for a, b in zip(bounds, bounds[1:]):
        ops.append(("write", stream[a:b]))
        inside = any(x < b < y for x, y in esc)
        if rng.random() < 0.3 and (not inside or flush_in_escape):
            ops.append(("flush",))
            if inside:
                features.add("flush_inside_escape")
    if rng.random() < 0.2:
        ops.insert(rng.randint(0, len(ops)), ("write", ""))
    ops.append(("flush",))
    # expected visible text: simulate "print complete lines; flush prints pending + newline"
    pending = ""
    expected_plain = []
    flushes_with_pending = 0
    for op in ops:
        if op[0] == "write":
            pending += op[1]
            while "\n" in pending:
                line, _, pending = pending.partition("\n")
                expected_plain.append(line + "\n")
        else:
            if pending:
                expected_plain.append(pending + "\n")
                flushes_with_pending += 1
                pending = ""
    expected_stream = "".join(_after_carriage_returns(l) for l in expected_plain)
    want = sgr.decode(expected_stream)
    wit = {"stream": stream, "ops": [list(o) for o in ops], "features": sorted(features)}
    ctx.count("mon.proxy_histories")
    ctx.count("mon.flush_with_pending", flushes_with_pending)
    try:
        for op in ops:
            if op[0] == "write":
                proxy.write(op[1])
            else:
                proxy.flush()
    except Exception as e:
        from rv.core.runner import exc_mechanism
        ctx.violation("fileproxy-raises:" + exc_mechanism(e).split(":", 1)[1],
                      dict(wit, error=repr(e)))
        ctx.case_done(("fp", stream, repr(ops)), False)
        return
    out = console.file.getvalue()
    got = sgr.decode(out)
    wit["output"] = out
    mid_flush = flushes_with_pending > 0 and any(
        o[0] == "flush" for o in ops[:-1])
    tag = ":flush-of-partial-line" if flushes_with_pending else ""
    if "other_csi" in features:
        tag += ":non-sgr-csi-in-stream"
    if "crlf" in features:
        tag += ":crlf-line-endings"
    if "carriage_return_inside_line" in features:
        tag += ":carriage-return-inside-a-line"
    if "reset_inside_link" in features:
        tag += ":sgr-reset-inside-a-hyperlink"
    if "flush_inside_escape" in features:
        tag = ":flush-inside-an-escape-sequence"
    if narrow:
        ctx.count("mon.proxy_narrow_console")
        if "".join(got.text.split()) != "".join(want.text.split()):
            ctx.violation("redirected-characters-lost-or-changed:console-narrower-than-the-lines" + tag,
                          dict(wit, got=got.text, want=want.text, console_width=console.width))
    elif got.unexpected:
        ctx.violation("unexpected-sequence-in-output" + tag, dict(wit, unexpected=got.unexpected[:3]))
    elif got.text != want.text:
        gl, wl_ = got.text.split("\n"), want.text.split("\n")
        kind = "lines-lost-or-changed"
        if sorted(gl) == sorted(wl_):
            kind = "lines-reordered"
        elif len(gl) > len(wl_) and all(l in gl for l in wl_):
            kind = "lines-duplicated"
        ctx.violation("redirected-%s%s" % (kind, tag), dict(wit, got=got.text, want=want.text))
    else:
        for i, (g, w_) in enumerate(zip(got.chars, want.chars)):
            ctx.count("mon.proxy_chars")
            if g[0] != "\n" and g != w_:
                ctx.violation("redirected-styling-differs" + tag,
                              dict(wit, index=i, char=g[0], got=repr(g[1:]), want=repr(w_[1:])))
                break
    for f in features:
        ctx.hist("stream_features", f)
    ctx.hist("chunks", len(bounds) - 1)
    inside_line = any(0 < c < n and stream[c - 1] != "\n" for c in cuts)
    ctx.case_done(("fp", stream, repr(ops)), len(bounds) > 2 and inside_line, wit)


def wl_live_redirect(ctx, rng, case_no):
    """The redirect as programs meet it: a Live / Progress session on a terminal console replaces sys.stdout and
    sys.stderr; the program print()s and write()s whole lines and fragments to both while the display is updated
    and refreshed; after the session everything written is on the (modelled) screen above the final frame, per
    stream in order, every line exactly once, and the real streams are back."""
    import sys
    from rich.console import Console
    from rich.live import Live
    from rich.progress import Progress
    from rich.text import Text
    from rv.model import term
    kind = rng.choice(["live", "progress"])
    W, H = 60, 200
    # the console writes to a file of its own, or (no file given) to whatever sys.stdout / sys.stderr is at the moment
    # of writing - the very streams the display redirects
    follows = rng.choice([None, None, "stdout", "stderr"])
    real_streams = (sys.stdout, sys.stderr)
    fake = {"stdout": io.StringIO(), "stderr": io.StringIO()}
    if follows:
        sys.stdout, sys.stderr = fake["stdout"], fake["stderr"]
        console = Console(stderr=follows == "stderr", width=W, height=H, color_system="truecolor", force_terminal=True,
                          legacy_windows=False, _environ={})
    else:
        console = Console(file=io.StringIO(), width=W, height=H, color_system="truecolor", force_terminal=True,
                          legacy_windows=False, _environ={})
    pool = S.UniquePool(rng, {"ascii": 1})
    ops = []
    for _ in range(rng.randint(1, 10)):
        r = rng.random()
        stream = rng.choice(["stdout", "stdout", "stderr"])
        if r < 0.35:
            ops.append(["print", stream, pool.word(2, 8)])                      # a whole line
        elif r < 0.65:
            ops.append(["write", stream, pool.word(1, 5)])                      # a fragment, no newline
        elif r < 0.75:
            ops.append(["write", stream, pool.word(1, 4) + "\n" + pool.word(1, 4)])   # ends one line, starts another
        elif r < 0.85:
            ops.append(["flush", stream])
        elif r < 0.95:
            ops.append(["refresh"])
        else:
            ops.append(["update", pool.word(3, 6)])
    saved = (sys.stdout, sys.stderr)
    frame = "FRAME"
    wit = {"display": kind, "ops": ops, "console_file": "its own" if not follows else "follows sys.%s" % follows}
    ctx.count("mon.live_redirect_sessions")
    try:
        try:
            if kind == "live":
                disp = Live(Text(frame), console=console, auto_refresh=False, redirect_stdout=True, redirect_stderr=True)
            else:
                disp = Progress(console=console, auto_refresh=False, redirect_stdout=True, redirect_stderr=True)
            with disp:
                if kind == "progress":
                    task = disp.add_task(frame, total=10)
                for op in ops:
                    if op[0] == "print":
                        print(op[2], file=sys.stdout if op[1] == "stdout" else sys.stderr)
                    elif op[0] == "write":
                        (sys.stdout if op[1] == "stdout" else sys.stderr).write(op[2])
                    elif op[0] == "flush":
                        (sys.stdout if op[1] == "stdout" else sys.stderr).flush()
                    elif op[0] == "refresh":
                        disp.refresh()
                    elif kind == "live":
                        disp.update(Text(frame + " " + op[1]))
                    else:
                        disp.update(task, description=frame + " " + op[1], advance=1)
        finally:
            restored = (sys.stdout is saved[0], sys.stderr is saved[1])
            sys.stdout, sys.stderr = real_streams
    except BaseException as e:
        sys.stdout, sys.stderr = real_streams
        if not isinstance(e, Exception):
            raise
        from rv.core.runner import exc_mechanism
        ctx.violation("live-redirect-raises:" + exc_mechanism(e).split(":", 1)[1], dict(wit, error=repr(e)))
        ctx.case_done(("lr", repr(ops), kind), False)
        return
    if restored != (True, True):
        ctx.violation("stdio-not-restored-after-session", dict(wit, restored=restored))
    out = fake[follows].getvalue() if follows else console.file.getvalue()
    if follows:
        other = fake["stderr" if follows == "stdout" else "stdout"].getvalue()
        if other:
            ctx.violation("redirected-output-reached-the-other-real-stream:through-%s" % kind, dict(wit, other_stream=other[:200]))
    screen = term.Screen(W, H)
    screen.feed(out)
    if screen.unknown:
        ctx.mark_inconclusive("screen model met an unknown sequence: %r" % screen.unknown[:2])
        return
    lines = [l for l in screen.lines() if l.strip() and not l.startswith(frame)]
    shown = "\n".join(lines)
    wit["screen_lines"] = lines[:40]
    # per stream: the characters written, in order, are a subsequence of the screen text, every one exactly once
    for stream in ("stdout", "stderr"):
        text = ""
        for op in ops:
            if op[0] in ("print", "write") and op[1] == stream:
                text += op[2] + ("\n" if op[0] == "print" else "")
            elif op[0] == "flush" and op[1] == stream and text and not text.endswith("\n"):
                text += "\n"       # flush() hands a pending fragment over as a line (as in the fileproxy workload)
        chars = [c for c in text if c != "\n"]
        pos = -1
        for c in chars:
            ctx.count("mon.live_redirect_chars")
            n = shown.count(c)
            if n != 1:
                ctx.violation("redirected-character-%s:through-%s" % ("lost" if n == 0 else "duplicated", kind),
                              dict(wit, char=c, stream=stream, occurrences=n))
                break
            at = shown.index(c)
            if at < pos:
                ctx.violation("redirected-characters-reordered:through-%s" % kind, dict(wit, char=c, stream=stream))
                break
            pos = at
        # a line completed by the program is a line of its own on the screen
        for piece in text.split("\n")[:-1]:
            if piece and piece not in lines:
                ctx.violation("redirected-line-not-on-a-line-of-its-own:through-%s" % kind, dict(wit, line=piece, stream=stream))
                break
    nwrites = sum(1 for op in ops if op[0] in ("print", "write"))
    ctx.case_done(("lr", repr(ops), kind), nwrites >= 2 and any(op[0] == "write" for op in ops), wit)


def workloads(tier):
    big = tier == "thorough"
    return [WL("roundtrip", wl_roundtrip, 800000 if big else 40000),
            WL("fileproxy", wl_fileproxy, 800000 if big else 40000),
            WL("live_redirect", wl_live_redirect, 100000 if big else 4000)]


LEVEL_TEXT = ("Runs the real AnsiDecoder on the real console's truecolor output for generated styled texts and "
              "compares per character with generator-side expectations; drives a real FileProxy with generated "
              "line streams cut at arbitrary points with interleaved flushes and checks the console's recorded "
              "output (decoded by the independent SGR model) for exactly-once, in-order, complete lines with "
              "their styling.")
LEVEL_NOTE = "Trusted: rv/model/sgr.py; the independent SGR encoder in this check (20 lines)."
TECHNIQUE = "runtime monitoring: encoder/decoder round-trip oracle per character; offline checker over recorded write/flush histories (exactly-once, order, completeness)"
