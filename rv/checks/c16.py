"""C16 - pretty-printed data evaluates back to the data."""
import ast
import re
from array import array
from collections import Counter, defaultdict, deque

from rv.core.runner import WL
from rv.gen import strings as S
from rv.model import cellref

ID = "C16"
LEVEL = "exploration"
RULE = ("random values nested to depth <=6 over list, tuple (0/1/n elements), dict, set, frozenset, deque, Counter, "
        "defaultdict, array (incl. empty) with str (wide characters, quotes, newlines) / bytes / int / float / bool "
        "/ None leaves x max_width 1..200 x indent_size x expand_all; cyclic structures; max_length / max_string "
        "cases with independently computed expected counts. Non-trivial: the value has depth >=2 and the output "
        "spans >=2 lines; distinct by (repr(value), options).")
ASSUMPTIONS = ["eval namespace maps the constructors and the text \"<class 'int'>\" (Python's own repr of a "
               "default_factory) back to the type",
               "string leaves avoid the literal text '... +' so abbreviation markers can be counted"]
REQUIRED = ["mon.after_interrupted_call", "mon.pretty_renderable", "mon.node_rerendered", "mon.eval_back", "mon.equals_repr_when_fits", "mon.layout", "mon.cycle", "mon.cycle_eval_back", "mon.max_length",
            "mon.max_string", "mon.width_at_the_edge_of_fitting"]
MIN_NONTRIVIAL = {"quick": 3000, "thorough": 150000}

NS = {"deque": deque, "Counter": Counter, "defaultdict": defaultdict, "array": array, "frozenset": frozenset,
      "set": set, "int": int, "list": list, "str": str, "dict": dict, "float": float, "tuple": tuple}
PLAIN = (list, tuple, dict, set, frozenset)


def rand_leaf(rng, hashable=False):
    r = rng.random()
    if r < 0.3:
        return rng.choice([0, 1, -1, 7, 42, 10 ** 6, -(10 ** 12), 2 ** 70])
    if r < 0.55:
        w = S.pick_weights(rng)
        s = S.free_string(rng, rng.choice([0, 3, 8, 20, 40]), w, space=0.1)
        if rng.random() < 0.2:
            s += rng.choice(["'", '"', "\n", "\\", "\t", "'\""])
        if rng.random() < 0.06:
            # a long string (a sentence in a script that stacks marks on letters: many more characters than cells),
            # or its opposite (full-width text: many more cells than characters)
            kind = rng.random()
            n = rng.randint(50, 110)
            if kind < 0.6:
                s = "".join(rng.choice(S.ASCII_LETTERS + "  ") + (rng.choice(S.ZERO) if rng.random() < 0.4 else "")
                            for _ in range(n))
            else:
                s = "".join(rng.choice(S.WIDE) if rng.random() < 0.5 else rng.choice(S.ASCII_LETTERS + " ")
                            for _ in range(n))
        return s
    if r < 0.65:
        return bytes(rng.randrange(256) for _ in range(rng.randint(0, 6)))
    if r < 0.8:
        return rng.choice([0.5, -1.25, 1e100, 3.141592653589793, 1e-7, 0.0, -0.0, 100.0, 1.0, 2.0])
    if r < 0.9:
        return rng.choice([True, False])
    return None


def rand_value(rng, depth, hashable=False, kinds=None):
    if depth <= 0 or rng.random() < 0.25:
        return rand_leaf(rng)
    n = rng.choice([0, 1, 1, 2, 3, 5, 9])
    if hashable:
        kind = rng.choice(["tuple", "frozenset", "leaf"])
    else:
        kind = rng.choice(kinds or ["list", "list", "tuple", "tuple", "dict", "dict", "set", "frozenset",
                                    "deque", "Counter", "defaultdict", "array"])
    if kind == "leaf":
        return rand_leaf(rng)
    if kind == "list":
        return [rand_value(rng, depth - 1, kinds=kinds) for _ in range(n)]
    if kind == "tuple":
        return tuple(rand_value(rng, depth - 1, hashable, kinds=kinds) for _ in range(n))
    if kind == "dict":
        return {rand_key(rng, depth - 1): rand_value(rng, depth - 1, kinds=kinds) for _ in range(n)}
    if kind == "set":
        return {rand_key(rng, depth - 1) for _ in range(n)}
    if kind == "frozenset":
        return frozenset(rand_key(rng, depth - 1) for _ in range(n))
    if kind == "deque":
        return deque(rand_value(rng, depth - 1) for _ in range(n))
    if kind == "Counter":
        c = Counter()
        for _ in range(n):
            c[rand_key(rng, 0)] = rng.randint(1, 5)
        return c
    if kind == "defaultdict":
        d = defaultdict(rng.choice([int, list, str, dict]))
        for _ in range(n):
            d[rand_key(rng, 0)] = rand_value(rng, depth - 1)
        return d
    if kind == "array":
        tc = rng.choice("bBhHiIlLqQfd")
        if tc in "fd":
            return array(tc, [rng.choice([0.5, 1.0, -2.25]) for _ in range(n)])
        lo = 0 if tc.isupper() else -100
        return array(tc, [rng.randint(lo, 100) for _ in range(n)])


def rand_key(rng, depth):
    if depth > 0 and rng.random() < 0.2:
        return tuple(rand_key(rng, depth - 1) for _ in range(rng.choice([0, 1, 2, 2, 3, 6])))
    v = rand_leaf(rng)
    return v


def deep_same(a, b):
    """Equal values of the same types, recursively."""
    if type(a) is not type(b):
        return False
    if isinstance(a, float):
        return repr(a) == repr(b)       # sign of zero included
    if isinstance(a, (list, tuple, deque)):
        return len(a) == len(b) and all(deep_same(x, y) for x, y in zip(a, b))
    if isinstance(a, dict):  # dict, Counter, defaultdict
        if isinstance(a, defaultdict) and a.default_factory is not b.default_factory:
            return False
        return a == b and all(deep_same(a[k], b[k]) for k in a) and \
            all(any(deep_same(k, k2) for k2 in b) for k in a)
    if isinstance(a, (set, frozenset)):
        return a == b and all(any(deep_same(x, y) for y in b) for x in a)
    if isinstance(a, array):
        return a.typecode == b.typecode and a == b
    return a == b


def depth_of(v):
    if isinstance(v, (list, tuple, set, frozenset, deque, array)):
        return 1 + max([depth_of(x) for x in v] or [0]) if not isinstance(v, array) else 1
    if isinstance(v, dict):
        return 1 + max([depth_of(x) for x in v.values()] or [0])
    return 0


def only_plain(v):
    if isinstance(v, PLAIN):
        if type(v) not in PLAIN:
            return False
        if isinstance(v, dict):
            return all(only_plain(k) and only_plain(x) for k, x in v.items())
        return all(only_plain(x) for x in v)
    return not isinstance(v, (deque, array))


_CLASS = re.compile(r"<class '(\w+)'>")
OPENERS = ("[", "(", "{")
CLOSERS = ("]", ")", "}")


def line_holds_complete_container(text):
    """Does this output line (already stripped of its indentation) contain a whole non-empty
    container on it?  Decided by parsing, not by pattern matching."""
    t = _CLASS.sub(r"\1", text.rstrip())
    if t.endswith(","):
        t = t[:-1]
    for cand, pick in ((t, lambda n: n), ("{" + t + "}", lambda n: n.values[0] if isinstance(n, ast.Dict) and n.values else None)):
        try:
            node = ast.parse(cand, mode="eval").body
        except (SyntaxError, ValueError, MemoryError, RecursionError):
            continue
        node = pick(node)
        if node is None:
            continue
        if isinstance(node, (ast.List, ast.Tuple, ast.Set)):
            return len(node.elts) > 0
        if isinstance(node, ast.Dict):
            return len(node.keys) > 0
        if isinstance(node, ast.Call):
            return any(isinstance(a, (ast.List, ast.Dict, ast.Set, ast.Tuple)) and
                       (getattr(a, "elts", None) or getattr(a, "keys", None)) for a in node.args)
        return False
    return False


def line_holds_container_key(text):
    """Is this a `key: value` line whose KEY is a non-empty container (a tuple or frozenset used as a dict key)?"""
    t = _CLASS.sub(r"\1", text.rstrip())
    if t.endswith(","):
        t = t[:-1]
    if t.rstrip().endswith(OPENERS):
        t = t + "0" + {"[": "]", "(": ")", "{": "}"}.get(t.rstrip()[-1], "")       # `key: [` -> close it for parsing
    try:
        node = ast.parse("{" + t + "}", mode="eval").body
    except (SyntaxError, ValueError, MemoryError, RecursionError):
        return False
    if isinstance(node, ast.Dict) and node.keys and node.keys[0] is not None:
        k = node.keys[0]
        if isinstance(k, ast.Tuple):
            return len(k.elts) > 1
        if isinstance(k, ast.Call) and k.args and isinstance(k.args[0], (ast.Set, ast.List, ast.Tuple)):
            return len(k.args[0].elts) > 1
    return False


def check_layout(ctx, out, max_width, indent_size, wit):
    """Structural layout check on the printed lines."""
    ctx.count("mon.layout")
    stack = []   # indents of open containers
    for ln, line in enumerate(out.split("\n")):
        body = line.lstrip(" ")
        indent = len(line) - len(body)
        is_closer = body[:1] in CLOSERS
        is_opener = body.rstrip().endswith(OPENERS) and not is_closer
        if is_closer:
            if not stack or indent != stack[-1]:
                ctx.violation("closing-brace-not-at-parent-indent", dict(wit, line_no=ln, line=line))
                return
            stack.pop()
        else:
            want = (stack[-1] + indent_size) if stack else 0
            if indent != want:
                ctx.violation("child-not-at-parent-indent-plus-indent_size",
                              dict(wit, line_no=ln, line=line, want_indent=want))
                return
            if cellref.width(line) > max_width and line_holds_container_key(body):
                # a container used as a dict KEY is printed with repr() on one line whatever the width
                ctx.violation("container-used-as-dict-key-kept-on-a-line-that-does-not-fit",
                              dict(wit, line_no=ln, line=line, cells=cellref.width(line)))
                return
            if is_opener:
                stack.append(indent)
            elif cellref.width(line) > max_width and line_holds_complete_container(body):
                ctx.violation("container-kept-on-a-line-that-does-not-fit",
                              dict(wit, line_no=ln, line=line, cells=cellref.width(line)))
                return
    if stack:
        ctx.violation("unbalanced-braces-in-output", wit)


def wl_values(ctx, rng, case_no):
    from rich.pretty import pretty_repr
    depth = rng.choice([1, 2, 3, 4, 6])
    v = rand_value(rng, depth)
    max_width = rng.choice([1, 2, 5, 10, 20, 40, 80, 80, 120, 200, rng.randint(1, 200)])
    if rng.random() < 0.25:
        # a width at, just below or just above what the one-line form needs (in cells)
        max_width = max(1, cellref.width(repr(v)) + rng.choice([-2, -1, 0, 0, 0, 1, 3]))
        ctx.count("mon.width_at_the_edge_of_fitting")
    indent_size = rng.choice([4, 4, 2, 1, 8])
    expand_all = rng.random() < 0.15
    if rng.random() < 0.05 and isinstance(v, (list, dict, tuple, set)):
        # history: an earlier pretty-print of a structure holding this very value was INTERRUPTED (Ctrl-C while a
        # __repr__ ran); what is printed afterwards must not depend on that
        class _Interrupted(KeyboardInterrupt):
            pass

        class _Bomb:
            def __repr__(self):
                raise _Interrupted()
        try:
            pretty_repr({"outer": [v, [v, _Bomb()]]}, max_width=rng.choice([10, 80]))
        except _Interrupted:
            ctx.count("mon.after_interrupted_call")
    route = "value"
    earlier = []
    if rng.random() < 0.25:
        # the traversed tree is a value of its own (pretty_repr and Pretty accept it, tracebacks keep it for locals)
        # and may be rendered more than once, at other widths first
        from rich.pretty import traverse
        route = "traversed-node-rendered-before"
        node = traverse(v)
        for _ in range(rng.choice([1, 1, 2])):
            w0 = rng.choice([1, 5, 10, 20, 40, 80, 200, max(1, max_width - 1), max_width + 1, rng.randint(1, 200)])
            kw0 = {"max_width": w0, "indent_size": rng.choice([indent_size, 4]), "expand_all": rng.random() < 0.15}
            earlier.append(kw0)
            node.render(**kw0) if rng.random() < 0.5 else pretty_repr(node, **kw0)
        out = pretty_repr(node, max_width=max_width, indent_size=indent_size, expand_all=expand_all)
        ctx.count("mon.node_rerendered")
    elif rng.random() < 0.15:
        # the renderable: Pretty(value) rendered by a console that has max_width cells (wrapping and cropping off, so
        # the lines are the pretty string's own)
        from rich.pretty import Pretty
        from rv.gen import specs as SP
        from rv.model import consoles
        route = "Pretty-renderable"
        pretty = Pretty(v, indent_size=indent_size, expand_all=expand_all, no_wrap=True, overflow="ignore")
        pconsole = consoles.layout_console(max_width)
        if rng.random() < 0.5:
            # one Pretty object lives through a layout pass (measured, as a table cell or Panel.fit would) and is
            # printed later; meanwhile the program goes on filling the container it wraps
            from rich.measure import Measurement
            Measurement.get(pconsole, pretty, max_width)
            route += "+measured-before"
            if isinstance(v, list):
                v.append(rng.choice([0, "late", None]))
                route += "+mutated"
            elif isinstance(v, dict) and type(v) is dict:
                v["late"] = 1
                route += "+mutated"
            elif isinstance(v, set):
                v.add("late")
                route += "+mutated"
        _, plines = SP.render_lines_cells(pconsole, pretty)
        out = "\n".join(plines)
        ctx.count("mon.pretty_renderable")
    else:
        out = pretty_repr(v, max_width=max_width, indent_size=indent_size, expand_all=expand_all)
    wit = {"value": repr(v)[:1500], "max_width": max_width, "indent_size": indent_size,
           "expand_all": expand_all, "output": out[:2500], "route": route, "earlier_renders_of_the_node": earlier}
    if route != "value":
        fresh = pretty_repr(v, max_width=max_width, indent_size=indent_size, expand_all=expand_all)
        if fresh != out:
            ctx.violation("rendering-a-traversed-node-depends-on-its-earlier-renders" if route.startswith("traversed")
                          else "Pretty-renderable-differs-from-pretty_repr", dict(wit, fresh=fresh[:2500]))
    # 1. evaluates back
    ctx.count("mon.eval_back")
    src = _CLASS.sub(r"\1", out)
    try:
        back = eval(src, dict(NS))
    except Exception as e:
        ctx.violation("output-does-not-evaluate:%s" % classify(v, out), dict(wit, error=repr(e)))
        back = None
    else:
        if not deep_same(back, v):
            ctx.violation("evaluates-to-different-value:%s" % classify(v, out),
                          dict(wit, back=repr(back)[:800]))
    # 2. equals repr() on one line whenever that fits
    if isinstance(v, PLAIN) and only_plain(v) and not expand_all:
        r = repr(v)
        if cellref.width(r) <= max_width:
            ctx.count("mon.equals_repr_when_fits")
            if out != r:
                ctx.violation("differs-from-repr-although-it-fits", dict(wit, repr=r))
    # 3. layout
    check_layout(ctx, out, max_width, indent_size, wit)
    nlines = out.count("\n") + 1
    ctx.hist("lines", min(nlines, 20))
    ctx.hist("top_type", type(v).__name__)
    ctx.case_done(("v", repr(v), max_width, indent_size, expand_all), depth_of(v) >= 2 and nlines >= 2, wit)


def classify(v, out):
    """Mechanism features of a failing value (never random data)."""
    feats = []

    def walk(x, parent_one_tuple=False):
        if isinstance(x, array) and len(x) == 0:
            feats.append("empty-array")
        if isinstance(x, tuple) and len(x) == 1:
            if isinstance(x[0], (list, tuple, dict, set, frozenset, deque, Counter, defaultdict, array)) and x[0]:
                feats.append("one-tuple-holding-container")
        if isinstance(x, dict):
            for k, y in x.items():
                walk(k)
                walk(y)
        elif isinstance(x, (list, tuple, set, frozenset, deque)):
            for y in x:
                walk(y)
    walk(v)
    return "+".join(sorted(set(feats))) or "other"


def wl_cycles(ctx, rng, case_no):
    from rich.pretty import pretty_repr
    kind = rng.choice(["list", "dict", "nested", "deque"])
    if kind == "list":
        v = [1, "a"]
        v.append(v)
    elif kind == "dict":
        v = {"k": 1}
        v["self"] = v
    elif kind == "deque":
        v = deque([1])
        v.append(v)
    else:
        inner = [rand_leaf(rng)]
        v = {"a": inner, "b": (inner,)}
        inner.append(v)
    width = rng.choice([1, 5, 20, 80])
    out = pretty_repr(v, max_width=width, indent_size=rng.choice([2, 4]))
    ctx.count("mon.cycle")
    if "..." not in out:
        ctx.violation("cycle-without-ellipsis-marker", {"kind": kind, "output": out})
    ctx.case_done(("cyc", kind, width, out), True, {"kind": kind, "width": width, "output": out})
    # random structures with several back-references (to the container itself or to any container around it, in lists,
    # dicts, deques and tuples holding them): the marker `...` is a Python expression (Ellipsis), so the output must
    # EVALUATE to the data with every back-reference replaced by Ellipsis - a twin built alongside, never derived from
    # the output
    nrefs = [0]

    def build(depth, ancestors):
        kind_ = rng.choice(["list", "list", "dict", "deque", "tuple"]) if depth > 0 else "leaf"
        if kind_ == "leaf":
            leaf = rand_leaf(rng)
            return leaf, leaf
        real = {"list": list, "dict": dict, "deque": deque, "tuple": list}[kind_]()
        twin = {"list": list, "dict": dict, "deque": deque, "tuple": list}[kind_]()
        around = ancestors + ([real] if kind_ != "tuple" else [])
        for i in range(rng.choice([0, 1, 2, 3, 5])):
            if around and rng.random() < 0.3:
                r_, t_ = rng.choice(around), Ellipsis
                nrefs[0] += 1
            else:
                r_, t_ = build(depth - 1, around)
            if kind_ == "dict":
                key = "k%d" % i
                real[key] = r_
                twin[key] = t_
            else:
                real.append(r_)
                twin.append(t_)
        if kind_ == "tuple":
            return tuple(real), tuple(twin)
        return real, twin
    real, twin = build(rng.choice([1, 2, 3]), [])
    if not nrefs[0] or not isinstance(real, (list, dict, deque)):
        return
    width = rng.choice([1, 8, 20, 40, 80, 120])
    opts = {"max_width": width, "indent_size": rng.choice([2, 4]), "expand_all": rng.random() < 0.2}
    out = pretty_repr(real, **opts)
    ctx.count("mon.cycle_eval_back")
    wit = {"twin_with_Ellipsis_for_back_references": repr(twin), "options": opts, "output": out, "back_references": nrefs[0]}
    try:
        back = eval(out, {"deque": deque, "__builtins__": {}})
    except Exception as e:
        ctx.violation("cyclic-structure-output-is-not-an-expression", dict(wit, error=repr(e)))
        return
    if back != twin or type(back) is not type(twin):
        ctx.violation("cyclic-structure-evaluates-to-different-value", dict(wit, evaluated=repr(back)))
    ctx.case_done(("cyc2", repr(twin), width), nrefs[0] >= 2, wit)


def expected_omissions(v, max_length):
    """Multiset of N in '... +N' that a correct abbreviation reports."""
    out = []

    def walk(x):
        if isinstance(x, (list, tuple, set, frozenset, deque, array)) and not isinstance(x, (str, bytes)):
            n = len(x)
            if n > max_length:
                out.append(n - max_length)
            for y in list(x)[:max_length]:
                walk(y)
        elif isinstance(x, dict):
            n = len(x)
            if n > max_length:
                out.append(n - max_length)
            for y in list(x.values())[:max_length]:
                walk(y)
    walk(v)
    return sorted(out)


def wl_abbrev(ctx, rng, case_no):
    from rich.pretty import pretty_repr
    if rng.random() < 0.5:
        v = rand_value(rng, rng.choice([1, 2, 3]),
                       kinds=["list", "tuple", "dict", "set", "frozenset", "deque", "Counter"])
        max_length = rng.choice([1, 2, 3, 5])
        out = pretty_repr(v, max_width=rng.choice([10, 40, 80, 200]), max_length=max_length)
        ctx.count("mon.max_length")
        got = sorted(int(x) for x in re.findall(r"\.\.\. \+(\d+)", out))
        want = expected_omissions(v, max_length)
        wit = {"value": repr(v)[:1200], "max_length": max_length, "output": out[:2000]}
        if got != want:
            ctx.violation("max_length-reports-wrong-omitted-count", dict(wit, got=got, want=want))
        ctx.case_done(("ml", repr(v), max_length), bool(want), wit)
    else:
        w = S.pick_weights(rng)
        strs = [S.free_string(rng, rng.choice([0, 3, 10, 30]), w, space=0.1) if rng.random() < 0.8
                else bytes(rng.randrange(256) for _ in range(rng.randint(0, 12)))
                for _ in range(rng.randint(1, 4))]
        m = rng.choice([0, 1, 3, 5, 10])
        ctx.count("mon.max_string")

        def exp(s):
            return repr(s) if len(s) <= m else "%r+%d" % (s[:m], len(s) - m)
        if rng.random() < 0.4:
            v, want = strs[0], exp(strs[0])
        else:
            v, want = list(strs), "[" + ", ".join(exp(s) for s in strs) + "]"
        out = pretty_repr(v, max_width=100000, max_string=m)
        wit = {"value": repr(v), "max_string": m, "output": out, "want": want}
        if out != want:
            ctx.violation("max_string-reports-wrong-omitted-count", wit)
        ctx.case_done(("ms", repr(v), m), any(len(s) > m for s in strs), wit)


def workloads(tier):
    big = tier == "thorough"
    return [WL("values", wl_values, 1500000 if big else 80000),
            WL("cycles", wl_cycles, 200000 if big else 6000),
            WL("abbreviations", wl_abbrev, 200000 if big else 10000)]


LEVEL_TEXT = ("Runs the real rich.pretty.pretty_repr on seeded random nested values at random widths / indent sizes "
              "/ expand_all and (1) evaluates the output back and compares value and types recursively, (2) "
              "compares with repr() when that fits, (3) checks the printed layout structurally (indentation of "
              "children and closing braces; a line wider than max_width must not hold a complete non-empty "
              "container - decided by parsing the line with ast), (4) cycles, (5) abbreviation counts against an "
              "independent traversal.")
LEVEL_NOTE = "Trusted: Python's eval/ast/repr; the small expected-omission traversal in this check."
TECHNIQUE = "runtime monitoring: eval-back oracle + ast-based layout checker on the real pretty_repr output"
