"""C09 - measurements are sound bounds on what rendering produces."""
import json

from rv.core.runner import WL
from rv.gen import specs as SP
from rv.gen import strings as S
from rv.model import cellref, consoles
from rv.monitor import wrap

ID = "C09"
LEVEL = "exploration"
RULE = ("the C01 renderable-tree specs plus renderables without a measure method and objects cast via __rich__, "
        "measured with Measurement.get at widths 0,1,2, m-2..m+2, random in 0..200 (thorough: all 0..200 for a "
        "share) with the bounds contract installed on EVERY call of Measurement.get (nested calls included), and "
        "rendered fresh at the reported maximum and minimum; plain texts without tabs (incl. low-weight unusual "
        "line separators) for the widest-word / widest-line identities. Non-trivial: depth >=1 and "
        "minimum < maximum; distinct by (spec, width).")
ASSUMPTIONS = ["structural minimum as in C01", "a 'line' of a text is a maximal run without '\\n'; words are split at whitespace"]
REQUIRED = ["mon.measure_edit_measure", "mon.text_rendered_at_reported", "mon.bounds_contract", "mon.render_at_max", "mon.render_at_min", "mon.text_identities", "mon.text_not_wrapped_at_max", "mon.render_with_options_narrower_than_console"]
MIN_NONTRIVIAL = {"quick": 2000, "thorough": 100000}

_installed = False
_counter = [0]
_ctx = [None]
_current = [None]


def install():
    global _installed
    if _installed:
        return
    from rich.measure import Measurement

    def post(result, console, renderable, max_width=None):
        mw = console.width if max_width is None else max_width
        mn, mx = result
        ok = (mn, mx) == (0, 0) if mw < 1 else (0 <= mn <= mx <= mw)
        if not ok and _ctx[0] is not None:
            _ctx[0].violation("measurement-bounds-broken:%s" % type(renderable).__name__,
                              {"renderable": repr(renderable)[:300], "max_width": max_width, "result": (mn, mx),
                               "while_measuring": _current[0]})
    wrap.wrap_classmethod(Measurement, "get", post, _counter)
    _installed = True


def wl_trees(ctx, rng, case_no):
    from rich.measure import Measurement
    install()
    _ctx[0] = ctx
    spec = SP.gen_spec(rng, depth=rng.choice([0, 1, 2, 3]), profile={"vcenter": True})
    r = rng.random()
    if r < 0.08:
        spec = {"k": "nomeasure", "child": spec}
    elif r < 0.16 and spec["k"] != "richcast":      # (this release casts once: a __rich__ that returns another
        spec = {"k": "richcast", "child": spec}      # __rich__ object is not a renderable, and nobody says it is)
    m = SP.structural_min(spec)
    if ctx.tier == "thorough" and case_no % 50 == 0:
        widths = list(range(0, 201))
    else:
        widths = sorted({0, 1, 2, max(0, m - 2), max(0, m - 1), m, m + 1, m + 2} |
                        {rng.randint(0, 200) for _ in range(6)})
    d = SP.depth(spec)
    before = _counter[0]
    for W in widths:
        console = consoles.layout_console(max(W, 1) if W else 80)
        obj = SP.build(spec)
        _current[0] = {"spec": spec, "width": W}
        mn, mx = Measurement.get(console, obj, W)
        wit = {"spec": spec, "available": W, "measurement": (mn, mx), "structural_min": m}
        if not (0 <= mn <= mx <= W):
            ctx.violation("measurement-bounds-broken:top", wit)
        for label, value in (("max", mx), ("min", mn)):
            if value >= max(m, 1):
                ctx.count("mon.render_at_" + label)
                if rng.random() < 0.35:
                    # the same width handed down as OPTIONS on a wider console (how a parent renders a child): a
                    # renderable that looks at the console's width instead of its options is only seen this way
                    ctx.count("mon.render_with_options_narrower_than_console")
                    c2 = consoles.layout_console(value + rng.choice([1, 7, 60]))
                    lw, lines = SP.render_lines_cells(c2, SP.build(spec), c2.options.update(width=value))
                else:
                    c2 = consoles.layout_console(value)
                    lw, lines = SP.render_lines_cells(c2, SP.build(spec))
                worst = max(lw or [0])
                if worst > value:
                    ctx.violation("render-at-reported-%s-overflows:top=%s" % (label, spec["k"]),
                                  dict(wit, rendered_at=value, line=lines[lw.index(worst)], line_cells=worst))
        sig = (json.dumps(spec, sort_keys=True, ensure_ascii=False, default=str), W)
        ctx.case_done(sig, d >= 1 and mn < mx, {"spec": spec, "available": W, "measurement": [mn, mx]})
    ctx.count("mon.bounds_contract", _counter[0] - before)
    ctx.hist("top_kind", spec["k"])


def wl_text(ctx, rng, case_no):
    from rich.measure import Measurement
    from rich.text import Text
    install()
    _ctx[0] = ctx
    w = S.pick_weights(rng)
    s = S.free_string(rng, rng.choice([0, 5, 20, 60]), w, space=0.2, newline=0.06)
    if rng.random() < 0.2:
        s = S.sparse_odd_string(rng, 1, 200)
        if rng.random() < 0.5:
            s = s.replace(" ", "_")
    if rng.random() < 0.15 and s:
        pos = rng.randint(0, len(s))
        s = s[:pos] + rng.choice(S.SEPARATOR_ODDITIES) + s[pos:]
    W = rng.choice([200, 200, 80, rng.randint(1, 200)])
    console = consoles.layout_console(max(W, 1))
    _current[0] = {"text": s, "width": W}
    mn, mx = Measurement.get(console, Text(s), W)
    words = s.split()
    want_min = min(W, max([cellref.width(x) for x in words] or [cellref.width(s)]))
    lines = s.split("\n")
    want_max = min(W, max(cellref.width(x) for x in lines))
    odd = any(ch in s for ch in S.SEPARATOR_ODDITIES)
    tag = ":unusual-line-separator" if odd else ""
    wit = {"text": s, "available": W, "measurement": (mn, mx), "want": (want_min, want_max)}
    ctx.count("mon.text_identities")
    if not s.strip():
        # whitespace-only text has no words, but it has lines: the maximum is still the width of its widest line
        if mx != want_max and "\t" not in s and not odd:
            ctx.violation("text-maximum-is-not-widest-line:whitespace-only", wit)
    else:
        if mn != want_min:
            ctx.violation("text-minimum-is-not-widest-word" + tag, wit)
        if mx != want_max:
            ctx.violation("text-maximum-is-not-widest-line" + tag, wit)
    raw_max = max(cellref.width(x) for x in lines)
    if mx >= 1 and s.strip() and raw_max <= W:
        # the text is given (at least) its widest line: it must not be wrapped
        ctx.count("mon.text_not_wrapped_at_max")
        wrapped = Text(s).wrap(consoles.layout_console(mx), mx)
        n = len(list(wrapped))
        if n != len(lines):
            ctx.violation("text-wrapped-at-its-own-maximum" + tag, dict(wit, lines=n, want_lines=len(lines)))
    # rendering at the reported minimum / maximum never produces a wider line, whatever wrapping options
    if s.strip() and not odd and "\t" not in s:
        need = 2 if S.has_wide(s) else 1
        no_wrap = rng.choice([None, True, False])
        overflow = rng.choice([None, "fold", "crop", "ellipsis"])
        for v in sorted({mn, mx}):
            if v < need:
                continue
            ctx.count("mon.text_rendered_at_reported")
            widths, _ = SP.render_lines_cells(consoles.layout_console(v), Text(s, no_wrap=no_wrap, overflow=overflow))
            if widths and max(widths) > v:
                ctx.violation("text-rendered-at-reported-width-is-wider:%s" % ("no_wrap" if no_wrap else "wrapping"),
                              dict(wit, rendered_at=v, line_widths=widths[:10], no_wrap=no_wrap, overflow=overflow))
                break
    # measured, edited in place, measured again: the second answer must be the answer for the text as it is NOW (what a
    # fresh text of the same characters reports), whatever the first measurement may have left behind in the object
    import random as _random
    r2 = _random.Random("edit/%d/%s" % (case_no, s[:16]))
    if r2.random() < 0.5:
        ctx.count("mon.measure_edit_measure")
        src = s if r2.random() < 0.7 or not s else s[:len(s) // 2] + "\t" + s[len(s) // 2:]
        t = Text(src, tab_size=r2.choice([8, 4, 2]))
        first = Measurement.get(console, t, W)
        edits = []
        for _ in range(r2.choice([1, 1, 2, 3])):
            n = len(t)
            e = r2.choice(["right_crop", "set_length_shorter", "set_length_longer", "truncate", "truncate_pad", "expand_tabs",
                           "pad_left", "pad_right", "pad", "append", "append_text", "rstrip", "rstrip_end", "plain_set",
                           "align", "remove_suffix", "stylize", "measure_again"])
            edits.append(e)
            if e == "right_crop":
                t.right_crop(r2.randint(0, max(1, n // 2)))
            elif e == "set_length_shorter":
                t.set_length(r2.randint(0, n))
            elif e == "set_length_longer":
                t.set_length(n + r2.randint(1, 9))
            elif e == "truncate":
                t.truncate(r2.randint(1, 30), overflow=r2.choice(["crop", "ellipsis", "fold"]))
            elif e == "truncate_pad":
                t.truncate(r2.randint(1, 60), overflow=r2.choice(["crop", "ellipsis"]), pad=True)
            elif e == "expand_tabs":
                t.expand_tabs()
            elif e == "pad_left":
                t.pad_left(r2.randint(1, 5))
            elif e == "pad_right":
                t.pad_right(r2.randint(1, 5))
            elif e == "pad":
                t.pad(r2.randint(1, 4))
            elif e == "append":
                t.append(r2.choice([" more words", "x", "\nline", "漢字"]))
            elif e == "append_text":
                t.append_text(Text(r2.choice([" tail", "y", "\nz"])))
            elif e == "rstrip":
                t.rstrip()
            elif e == "rstrip_end":
                t.rstrip_end(r2.randint(1, 30))
            elif e == "plain_set":
                t.plain = r2.choice(["", "replaced text", t.plain[: n // 2], t.plain + " longer"])
            elif e == "align":
                t.align(r2.choice(["left", "center", "right"]), r2.randint(1, 60))
            elif e == "remove_suffix":
                t.remove_suffix(t.plain[-2:])
            elif e == "stylize":
                t.stylize("bold", 0, max(1, n // 2))
            else:
                Measurement.get(console, t, r2.choice([W, max(1, W // 2)]))
        again = Measurement.get(console, t, W)
        fresh = Measurement.get(console, Text(t.plain), W)
        if tuple(again) != tuple(fresh):
            ctx.violation("measurement-of-edited-text-is-stale:%s" % "+".join(sorted(set(edits) - {"measure_again", "stylize"})),
                          {"text": src, "edits": edits, "now": t.plain, "available": W, "first": tuple(first),
                           "measured_after_edit": tuple(again), "fresh_text_of_same_characters": tuple(fresh)})
    ctx.case_done(("t", s, W), len(words) >= 2 and mn < mx, wit)


def workloads(tier):
    big = tier == "thorough"
    return [WL("trees", wl_trees, 120000 if big else 5000),
            WL("text", wl_text, 1000000 if big else 80000)]


LEVEL_TEXT = ("Measures freshly built random renderable trees with the real Measurement.get - with a bounds contract "
              "installed on the real classmethod so that every nested call made by tables, panels, columns ... is "
              "checked too - and renders them at the reported maximum and minimum; checks the widest-word / "
              "widest-line identities and 'never wrapped at its maximum' on generated plain texts.")
LEVEL_NOTE = "Trusted: reference width table; structural-minimum rule."
TECHNIQUE = "runtime monitoring: post-condition contract on the real Measurement.get (all calls) + measure-versus-render relational oracle"
