"""C11 - console output is thread-safe under every interleaving."""
import io
import re

from rv.core.runner import WL
from rv.model import sgr, term

ID = "C11"
LEVEL = "exploration"
RULE = ("programs of 2-4 real threads, each <=4 operations from {print (unique payload, 1-3 lines), log, capture block, "
        "live.update(refresh), live.refresh, progress.advance / add_task, start, stop}, plus the real refresh thread "
        "when auto_refresh is on (its timer fires when the scheduler says so), on one recording console with and "
        "without a Live / Progress display; run under a cooperative scheduler with a possible preemption at every "
        "executed line of rich/console.py, live.py, live_render.py, progress.py, file_proxy.py, at every lock / event / "
        "thread operation and at every file write; schedules chosen by seeded random walk and PCT (depth 2-4), plus - on "
        "tiny programs (<=3 threads x <=2 ops) - every placement of <=1 (quick) / <=2 (thorough) alternative choices at "
        "the coarse yield points (lock/event/thread operations, file writes, forced switches), depth-first. "
        "Non-trivial: >=2 threads wrote to the file and >=3 context switches happened; distinct by (program, "
        "configuration, strategy, seed); the evidence also counts distinct write interleavings.")
ASSUMPTIONS = ["the scheduler serialises real threads; a race whose window lies entirely inside C code or another "
               "module than the five instrumented ones is invisible",
               "oracle (5) (screen = printed lines in file order + last frame) is evaluated for Live displays whose "
               "frames carry unique tokens; see the known finding about the print-versus-refresh window",
               "a wall-clock watchdog (30 s per schedule) firing is inconclusive"]
REQUIRED = ["mon.lock_holders_only_programs", "mon.console_clean_after_stop", "mon.record_conservation_across_clearing_exports", "mon.redirected_prints", "mon.log_call_site", "mon.nonterminal_final_frame", "mon.schedules", "mon.exactly_once_contiguous", "mon.capture_isolation", "mon.record_order",
            "mon.deadlock_detector", "mon.screen_replay", "mon.context_switches"]
MIN_NONTRIVIAL = {"quick": 800, "thorough": 50000}

_codes = None
_patched = False
# the buffer-handling core named by the property's anchors: in the systematic workload every executed line of these
# functions is a decision point (elsewhere only lock / event / thread operations and file writes are)
CORE_FUNCTIONS = {"Console._enter_buffer", "Console._exit_buffer", "Console._check_buffer", "Console._render_buffer",
                  "Console.begin_capture", "Console.end_capture", "Console.__enter__", "Console.__exit__",
                  "Capture.__enter__", "Capture.__exit__", "Capture.get", "Live.process_renderables",
                  "Progress.process_renderables", "LiveRender.position_cursor", "_RefreshThread.run"}


def _log_site_a(console, msg):
    console.log(msg)


def _log_site_b(console, msg):
    console.log(msg)


LOG_SITES = [(_log_site_a, _log_site_a.__code__.co_firstlineno + 1), (_log_site_b, _log_site_b.__code__.co_firstlineno + 1)]


def _instrument(sched):
    global _codes, _patched
    from rv.sched import scheduler as S
    from rv.sched import coop
    import rich.console as rc
    import rich.live as rl
    import rich.live_render as rlr
    import rich.progress as rp
    import rich.file_proxy as rfp
    import rich._log_render as rlog
    if _codes is None:
        _codes = []
        for mod in (rc, rl, rlr, rp, rfp, rlog):
            _codes.extend(S.code_objects(mod))
    core = [c for c in _codes if c.co_qualname in CORE_FUNCTIONS]
    S.install(sched, _codes, (), core)
    holder["sched"] = sched
    if not _patched:
        coop.patch_thread_class(rl._RefreshThread, lambda: holder["sched"])
        coop.patch_thread_class(rp._RefreshThread, lambda: holder["sched"])
        coop.patch_thread_class(rp._TrackThread, lambda: holder["sched"])
        _patched = True
    # module globals used at construction time of Live / Progress / their helper threads
    for mod in (rl, rp, rfp):
        mod.RLock = (lambda name: lambda: coop.CoopRLock(holder["sched"], name + ".RLock"))(mod.__name__)
        mod.Event = (lambda name: lambda: coop.CoopEvent(holder["sched"], name + ".Event",
                                                         max_firings=holder["firings"]))(mod.__name__)


def _uninstrument():
    import threading
    import rich.live as rl
    import rich.progress as rp
    from rv.sched import scheduler as S
    import rich.file_proxy as rfp
    rfp.RLock = threading.RLock
    for mod in (rl, rp):
        mod.RLock = threading.RLock
        mod.Event = threading.Event
    S.uninstall()
    holder["sched"] = None


holder = {"sched": None, "firings": 3}


def gen_program(rng, display):
    nthreads = rng.choice([2, 2, 3, 4])
    prog = []
    fid = 0
    for th in range(nthreads):
        ops = []
        for i in range(rng.randint(1, 4)):
            pid = "T%d.%d" % (th, i)
            r = rng.random()
            if r < 0.10:
                # identical content from several places: a cache keyed by content must not mix threads up
                ops.append(["print_same"] if rng.random() < 0.6 else ["capture_same", pid])
            elif r < 0.40 or display == "none" and r < 0.6:
                ops.append(["print", pid, rng.choice([1, 1, 2, 3])])
            elif r < 0.52:
                ops.append(["log", pid])
            elif r < 0.64:
                # (one capture in four is opened with output of the same thread still pending: inside a `with console:`
                # batch that has already printed something)
                ops.append(["capture", pid] if rng.random() < 0.75 else ["batch_capture", pid, "T%d.%d" % (th, i + 5)])
            elif display.startswith("live"):
                if r < 0.85:
                    fid += 1
                    # (empty frames are C10's subject; here every frame carries tokens so that the frame on
                    # screen can be identified)
                    ops.append(["update", "F%d_%d" % (th, fid), rng.choice([1, 1, 2, 3, 5]), rng.random() < 0.8])
                elif r < 0.93:
                    ops.append(["refresh"])
                elif r < 0.97:
                    ops.append(["stop"])
                else:
                    ops.append(["start"])
            elif display.startswith("progress"):
                if r < 0.85:
                    ops.append(["advance", rng.randrange(2), rng.choice([1, 5])])
                elif r < 0.93:
                    ops.append(["add_task"])
                else:
                    ops.append(["refresh"])
            else:
                ops.append(["print", pid, 1])
        prog.append(ops)
    return prog


def _html_text(html):
    import html as _h
    m = re.search(r"<pre[^>]*>(.*)</pre>", html, re.S)
    body = m.group(1) if m else html
    return _h.unescape(re.sub(r"<[^>]+>", "", body))


def payload_lines(pid, n):
    lines = ["B:%s" % pid] + ["m:%s:%d" % (pid, k) for k in range(n - 1)] + ["E:%s" % pid]
    return lines


_MARK = re.compile(r"[BEm]:T\d+\.\d+(?::\d+)?")
_ANYMARK = re.compile(r"[BEm]:T\d+\.\d+(?::\d+)?|S:same")
_FRAME = re.compile(r"F\d+_\d+-\d+")
_KROW = re.compile(r"(?m)^(?:\x1b\[[0-9;]*[A-Za-z]|\r)*K\d+ ")


def wl_schedules(ctx, rng, case_no):
    from rv.sched import scheduler as S
    display = rng.choice(["none", "none", "live", "live", "live_auto", "progress", "progress_auto"])
    terminal = True if display != "none" else rng.random() < 0.6
    if display.startswith("live") and rng.random() < 0.2:
        terminal = False        # a live display whose console writes to a file / pipe: only the final frame is written
    prog = gen_program(rng, display)
    strat_kind = rng.choice(["pct2", "pct3", "pct3", "pct4", "random", "random"])
    sseed = rng.randrange(1 << 30)
    if strat_kind == "random":
        strategy = S.RandomWalk(sseed, switch_prob=rng.choice([0.02, 0.1, 0.3]))
    else:
        strategy = S.PCT(sseed, depth=int(strat_kind[3]), est_steps=rng.choice([300, 1000, 3000]))
    firings, height = rng.choice([0, 1, 2, 3]), rng.choice([6, 12])
    # one program in five with a display leaves the START to the workers: two or more of them start it (start() is
    # documented to be idempotent), from a stream of its own so that the other cases stay what they were
    import random as _random
    r2 = _random.Random("late/%d" % sseed)
    if display.startswith("live") and terminal and r2.random() < 0.3:
        # programs made ONLY of operations that hold the display lock (refresh, update with an immediate refresh) from
        # two or three threads: nothing in them can open the known print-versus-refresh window, so every screen
        # mismatch is a violation - this is where a refresh that has lost its lock shows
        fid = 100
        prog = []
        for th in range(r2.choice([2, 2, 3])):
            ops = []
            for _ in range(r2.randint(1, 3)):
                if r2.random() < 0.5:
                    ops.append(["refresh"])
                else:
                    fid += 1
                    ops.append(["update", "F%d_%d" % (th, fid), r2.choice([1, 2, 3, 5]), True])
            prog.append(ops)
        ctx.count("mon.lock_holders_only_programs")
    late = display != "none" and r2.random() < 0.2
    if late:
        starters = r2.sample(range(len(prog)), min(len(prog), r2.choice([2, 2, 3])))
        for th in starters:
            prog[th].insert(0, ["start"])
    execute(ctx, prog, display, terminal, firings, height, strategy, strat_kind, sseed, late_start=late)


def wl_concurrent_logs(ctx, rng, case_no):
    """Nothing but log() calls from 2-4 threads at two source lines, many cheap schedules: the log renderer (time
    and path columns) is shared by all threads of a console."""
    from rv.sched import scheduler as S
    nthreads = rng.choice([2, 2, 3, 4])
    prog = [[["log", "T%d.%d" % (th, i)] for i in range(rng.randint(1, 3))] for th in range(nthreads)]
    strat_kind = rng.choice(["pct2", "pct3", "random", "random"])
    sseed = rng.randrange(1 << 30)
    if strat_kind == "random":
        strategy = S.RandomWalk(sseed, switch_prob=rng.choice([0.05, 0.2, 0.5]))
    else:
        strategy = S.PCT(sseed, depth=int(strat_kind[3]), est_steps=rng.choice([200, 600]))
    terminal = rng.random() < 0.5
    # a third of these programs also take the record away while the others are still logging: export / save with
    # clear=True from one or two of the threads (drawn from a stream of its own, so the other cases stay what they were)
    import random as _random
    r2 = _random.Random("exports/%d" % sseed)
    if r2.random() < 0.35:
        for _ in range(r2.choice([1, 1, 2])):
            ops = prog[r2.randrange(nthreads)]
            ops.insert(r2.randrange(len(ops) + 1), ["export", r2.choice(["text", "html", "save_text", "save_html"])])
    if r2.random() < 0.25:
        # a capture block in which nothing is printed, with more output of the same thread behind it
        ops = prog[r2.randrange(nthreads)]
        ops.insert(r2.randrange(len(ops)), ["capture_empty"])
    execute(ctx, prog, "none", terminal, 0, 12, strategy, strat_kind, sseed)


def wl_redirected_prints(ctx, rng, case_no):
    """Threads that print with the BUILTIN print() (to stdout and stderr) while a live display redirects both through
    the console: every printed line reaches the file exactly once (the redirect's buffer and decoder are shared by
    all threads)."""
    from rv.sched import scheduler as S
    nthreads = rng.choice([2, 2, 3])
    prog = [[["pyprint" if rng.random() < 0.8 else "pyflush", "T%d.%d" % (th, i)] for i in range(rng.randint(1, 3))]
            for th in range(nthreads)]
    # a quarter of the line prints becomes ONE write() of three complete lines (what a logging handler or a child's
    # captured output does): the lines of one write reach the file together, nothing of another thread in between
    import random as _random
    r3 = _random.Random("multi/%d" % case_no)
    for ops in prog:
        for op in ops:
            if op[0] == "pyprint" and r3.random() < 0.3:
                op[0] = "pywrite_multi"
    if rng.random() < 0.3:
        prog[0].append(["print", "T0.9", 1])
    if rng.random() < 0.3:
        # one of the threads stops the display while the others may still be printing (or flushing a fragment)
        prog[rng.randrange(nthreads)].append(["stop"])
    strat_kind = rng.choice(["pct2", "pct3", "random", "random"])
    sseed = rng.randrange(1 << 30)
    if strat_kind == "random":
        strategy = S.RandomWalk(sseed, switch_prob=rng.choice([0.05, 0.2, 0.5]))
    else:
        strategy = S.PCT(sseed, depth=int(strat_kind[3]), est_steps=rng.choice([200, 600]))
    import sys
    saved = (sys.stdout, sys.stderr)
    # what the display restores when it stops are these two, not the process's real streams: prints that come after a
    # worker's stop() land here and count as delivered
    holder["std_dummies"] = (io.StringIO(), io.StringIO())
    sys.stdout, sys.stderr = holder["std_dummies"]
    try:
        execute(ctx, prog, "live", True, 0, 12, strategy, strat_kind, sseed)
    finally:
        sys.stdout, sys.stderr = saved
        holder["std_dummies"] = None


def wl_nonterminal_live(ctx, rng, case_no):
    """Live displays with a refresh thread on a console that is NOT a terminal (output piped to a file): nothing is
    drawn while it runs, the final frame is written once at stop.  The refresh thread and stop() meet in a narrow
    window, so this configuration gets many cheap schedules of its own."""
    from rv.sched import scheduler as S
    prog = gen_program(rng, "live_auto")
    keep_stops = rng.random() < 0.3        # a worker thread may stop the display while others still print
    prog = [[op for op in ops if op[0] != "start" and (keep_stops or op[0] != "stop")] or [["print", "T%d.0" % th, 1]]
            for th, ops in enumerate(prog)]
    if keep_stops and not any(op[0] == "stop" for ops in prog for op in ops):
        prog[rng.randrange(len(prog))].append(["stop"])
    strat_kind = rng.choice(["pct2", "pct3", "random", "random"])
    sseed = rng.randrange(1 << 30)
    if strat_kind == "random":
        strategy = S.RandomWalk(sseed, switch_prob=rng.choice([0.02, 0.1, 0.3]))
    else:
        strategy = S.PCT(sseed, depth=int(strat_kind[3]), est_steps=rng.choice([300, 1000, 3000]))
    execute(ctx, prog, "live_auto", False, rng.choice([1, 2, 3, 5]), 12, strategy, strat_kind, sseed)


def wl_dfs(ctx, rng, case_no):
    """Systematic: every placement of <= c alternative choices at the coarse yield points (lock / event / thread
    operations, file writes, forced switches) of a tiny program; c = 1 (quick) / 2 (thorough)."""
    from rv.sched import scheduler as S
    display = rng.choice(["none", "live", "live", "live_auto", "progress"])
    terminal = True
    full = gen_program(rng, display)
    prog = [ops[:2] for ops in full[:3]]
    if rng.random() < 0.5:
        # the shape that needs a preemption between two buffer-core lines: one capturing thread, two printers of
        # identical content
        prog = [[["capture_same", "T0.0"]], [["print_same"]], [["print_same"]]]
        if rng.random() < 0.5:
            prog[rng.randrange(3)].append(["print", "T9.9", 1])
    bound = 2 if ctx.tier == "thorough" else 1
    firings = rng.choice([0, 1])
    height = 12
    n = 0
    gen = S.explore_bounded(lambda strat: execute(ctx, prog, display, terminal, firings, height, strat,
                                                  "dfs%d" % bound, 0, plan_of=strat),
                            bound=bound, max_runs=3000 if ctx.tier == "thorough" else 350,
                            kinds=S.COARSE | {"line.core"})
    exhausted = None
    try:
        while True:
            next(gen)
            n += 1
    except StopIteration as stop:
        exhausted = stop.value
    ctx.count("dfs_programs")
    ctx.count("dfs_schedules", n)
    ctx.hist("dfs_space_exhausted", "yes" if exhausted else "no")


def execute(ctx, prog, display, terminal, firings, height, strategy, strat_kind, sseed, plan_of=None, late_start=False):
    # a transient display clears itself on stop(): the final-screen oracle then expects no frame at all
    from rv.core.ctx import stable_hash
    transient = stable_hash((repr(prog), sseed, firings)) % 4 == 0
    from rv.sched import scheduler as S
    from rv.sched import coop
    from rich.console import Console
    from rich.text import Text
    sched = S.Scheduler(strategy, max_steps=600000)
    holder["firings"] = firings
    _instrument(sched)
    from rv.core.ctx import stable_hash as _sh
    log_path = _sh(("log_path", repr(prog), sseed)) % 2 == 0
    file = coop.RecordingFile(sched, tty=terminal)
    console = Console(file=file, width=60, height=height, force_terminal=terminal, color_system="truecolor",
                      legacy_windows=False, record=True, log_time=False, log_path=log_path, _environ={}, highlight=False)
    console._lock = coop.CoopRLock(sched, "console._lock")
    console._record_buffer_lock = coop.CoopRLock(sched, "console._record_buffer_lock")
    events = []          # (step, thread, kind, detail)
    # builtin print() from the threads goes through the display's redirect (sys.stdout is a FileProxy while it runs)
    redirect = any(op[0] in ("pyprint", "pyflush", "pywrite_multi") for ops in prog for op in ops)
    import sys as _sys
    saved_std = (_sys.stdout, _sys.stderr)
    cur_op = {}          # thread name -> kind of the operation it is executing
    captures = {}
    exports = []         # what clearing exports returned, in the order they returned
    frames = {}          # frame id -> lines
    live = None
    if display.startswith("live"):
        from rich.live import Live
        live = Live(Text("F0_0-0"), console=console, auto_refresh=display == "live_auto", refresh_per_second=10,
                    transient=transient, redirect_stdout=redirect, redirect_stderr=redirect)
        frames["F0_0"] = ["F0_0-0"]
    elif display.startswith("progress"):
        from rich.progress import Progress
        live = Progress(console=console, auto_refresh=display == "progress_auto", refresh_per_second=10,
                        redirect_stdout=redirect, redirect_stderr=redirect, get_time=lambda: 5.0)
    if live is not None:
        orig_hook = live.process_renderables

        def hook(renderables):
            me = sched.me()
            name = me.name if me else "?"
            events.append((sched.step, name, "hook", (live._lock.held_by_me(), cur_op.get(name))))
            return orig_hook(renderables)
        live.process_renderables = hook
        lr = live._live_render
        orig_render = lr.__rich_console__

        def render(console_, options):
            me = sched.me()
            events.append((sched.step, me.name if me else "?", "frame_render", None))
            return orig_render(console_, options)
        lr.__rich_console__ = render

    def do_op(op, th=0):
        k = op[0]
        if k == "print":
            console.print(Text("\n".join(payload_lines(op[1], op[2]))))
        elif k == "log":
            # threads log from two different source lines (the line is shown at the right when log_path is on)
            LOG_SITES[th % 2][0](console, Text("B:%s E:%s" % (op[1], op[1])))
        elif k == "pyprint":
            print("B:%s E:%s" % (op[1], op[1]), file=_sys.stderr if th % 2 else _sys.stdout)
        elif k == "pywrite_multi":
            (_sys.stderr if th % 2 else _sys.stdout).write("B:%s\nm:%s:0\nE:%s\n" % (op[1], op[1], op[1]))
        elif k == "pyflush":
            # a fragment without a line end, flushed at once (a prompt, a progress dot)
            print("B:%s E:%s" % (op[1], op[1]), end="", flush=True, file=_sys.stderr if th % 2 else _sys.stdout)
        elif k == "capture":
            with console.capture() as cap:
                console.print(Text("\n".join(payload_lines(op[1], 2))))
            captures[op[1]] = cap.get()
        elif k == "batch_capture":
            with console:
                console.print(Text("\n".join(payload_lines(op[2], 1))))
                with console.capture() as cap:
                    console.print(Text("\n".join(payload_lines(op[1], 2))))
                captures[op[1]] = cap.get()
        elif k == "export":
            # the record is taken away (clear=True) while other threads may be printing: what is exported and what is
            # left behind must add up to what was written
            if op[1] == "text":
                exports.append(console.export_text(clear=True))
            elif op[1] == "html":
                exports.append(_html_text(console.export_html(clear=True)))
            else:
                import os
                import tempfile
                d = tempfile.mkdtemp(prefix="rv-c11-")
                try:
                    path = os.path.join(d, "out")
                    if op[1] == "save_text":
                        console.save_text(path, clear=True)
                        exports.append(open(path, encoding="utf-8").read())
                    else:
                        console.save_html(path, clear=True)
                        exports.append(_html_text(open(path, encoding="utf-8").read()))
                finally:
                    import shutil
                    shutil.rmtree(d, ignore_errors=True)
        elif k == "capture_empty":
            with console.capture() as cap:
                pass
            if cap.get() != "":
                events.append((sched.step, "T%d" % th, "empty_capture_returned", cap.get()[:80]))
        elif k == "print_same":
            console.print(Text("S:same"))
        elif k == "capture_same":
            with console.capture() as cap:
                console.print(Text("S:same"))
            captures[op[1]] = cap.get()
        elif k == "update":
            lines = ["%s-%d" % (op[1], i) for i in range(op[2])]
            frames[op[1]] = lines or [""]
            live.update(Text("\n".join(lines)), refresh=op[3])
        elif k == "refresh":
            live.refresh()
        elif k == "start":
            live.start()
        elif k == "stop":
            live.stop()
        elif k == "advance":
            if op[1] in live._tasks:
                live.advance(op[1], op[2])
        elif k == "add_task":
            live.add_task("K%d" % (10 + len(live._tasks)), total=50)

    def worker(th):
        def run():
            for op in prog[th]:
                events.append((sched.step, "T%d" % th, "op_begin", op))
                cur_op["T%d" % th] = op[0]
                do_op(op, th)
                cur_op["T%d" % th] = None
                events.append((sched.step, "T%d" % th, "op_end", op))
        return run

    def coordinator():
        if live is not None:
            if display.startswith("progress"):
                live.add_task("K0", total=50)
                live.add_task("K1", total=50)
            if not late_start:
                live.start()
        workers = [sched.spawn("T%d" % th, worker(th)) for th in range(len(prog))]
        me = sched.me()
        for w in workers:
            while not w.finished:
                sched.block(me, ("join", w))
        if live is not None:
            live.stop()
            # after the display has been stopped nothing of it is left in the console: no render hook, and a print
            # writes its own text and nothing else
            after["hooks"] = len(console._render_hooks)
            after["mark"] = len(file.writes)
            console.print(Text("Z:after"))
    after = {}
    sched.spawn("M", coordinator)
    outcome = sched.run(timeout=30.0)
    _uninstrument()
    ctx.count("mon.schedules")
    ctx.count("mon.deadlock_detector")
    wit = {"display": display, "transient": transient, "terminal": terminal, "program": prog, "strategy": strat_kind, "schedule_seed": sseed,
           "timer_firings": holder["firings"], "outcome": outcome, "switches": sched.switches, "steps": sched.step}
    if plan_of is not None:
        wit["preemption_plan"] = sorted(plan_of.plan.items())
    if outcome == "watchdog":
        ctx.mark_inconclusive("schedule watchdog fired (30 s): %r" % (wit,))
        return
    if outcome == "deadlock":
        ctx.violation("deadlock:" + display, dict(wit, wait_for=sched.deadlock, choices=sched.choices[-60:]))
        return
    if sched.errors:
        ctx.violation("exception-in-thread:%s:%s" % (display, sched.errors[0][1][:50]), dict(wit, errors=sched.errors[:2]))
        return
    ctx.count("mon.context_switches", sched.switches)
    if after:
        ctx.count("mon.console_clean_after_stop")
        tail = "".join(w[2] for w in file.writes[after["mark"]:])
        if after["hooks"] or tail != "Z:after\n":
            ctx.violation("display-left-installed-after-stop:%s%s" % (display, ":started-by-several-threads" if late_start else ""),
                          dict(wit, render_hooks_after_stop=after["hooks"], print_after_stop_wrote=tail[:200]))
            return
    stream = file.getvalue()
    dec = sgr.decode(stream)
    text = dec.text
    wit["writes"] = [(w[1], w[2][:80]) for w in file.writes][:40]
    # (1) exactly once and contiguous
    ctx.count("mon.exactly_once_contiguous")
    writers = set()
    for th, ops in enumerate(prog):
        for op in ops:
            if op[0] in ("print", "log", "pyprint", "pyflush", "pywrite_multi", "batch_capture"):
                pid = op[2] if op[0] == "batch_capture" else op[1]
                b, e = "B:%s" % pid, "E:%s" % pid
                nb, ne = len(re.findall(re.escape(b) + r"(?!\d)", text)), len(re.findall(re.escape(e) + r"(?!\d)", text))
                if op[0] in ("pyprint", "pyflush", "pywrite_multi") and holder.get("std_dummies"):
                    # (after a worker stopped the display the builtin print writes to the restored streams)
                    late = "".join(d.getvalue() for d in holder["std_dummies"])
                    nb += len(re.findall(re.escape(b) + r"(?!\d)", late))
                    ne += len(re.findall(re.escape(e) + r"(?!\d)", late))
                if nb != 1 or ne != 1:
                    kind = "lost" if nb == 0 or ne == 0 else "duplicated"
                    ctx.violation("print-output-%s:%s" % (kind, display), dict(wit, payload=pid, begins=nb, ends=ne))
                    return
                if b not in text or e not in text:
                    continue            # (delivered to the restored stream after the display had stopped)
                seg = text[text.index(b):text.index(e)]
                others = [m for m in _MARK.findall(seg) if not m[2:].startswith(pid)]
                if others or _FRAME.search(seg):
                    ctx.violation("print-output-interleaved-with-other-output:%s" % display,
                                  dict(wit, payload=pid, inside=others[:4], segment=seg[:200]))
                    return
                if op[0] == "log" and log_path:
                    ctx.count("mon.log_call_site")
                    line = [l for l in text.split("\n") if b in l]
                    site = "c11.py:%d" % LOG_SITES[th % 2][1]
                    if line and site not in sgr.decode(line[0]).text:
                        ctx.violation("log-line-names-another-thread's-call-site:%s" % display,
                                      dict(wit, payload=pid, line=sgr.decode(line[0]).text.strip(), want_site=site))
                        return
                writers.add(th)
    # identical prints: as many copies in the file as were printed outside a capture block, none lost, none extra
    n_same = sum(1 for ops in prog for op in ops if op[0] == "print_same")
    got_same = len(re.findall(r"S:same", text))
    if got_same != n_same:
        ctx.violation("identical-prints-%s:%s" % ("lost" if got_same < n_same else "duplicated-or-leaked-from-capture", display),
                      dict(wit, printed=n_same, in_file=got_same))
        return
    for th, ops in enumerate(prog):
        for op in ops:
            if op[0] == "capture_same":
                ct = sgr.decode(captures.get(op[1], "")).text
                if ct.count("S:same") != 1 or _MARK.search(ct):
                    ctx.violation("capture-of-identical-print-wrong:%s" % display, dict(wit, captured=ct[:200]))
                    return
    if redirect:
        # builtin print() is two write() calls (the text, then the line end): lines of different threads may share a
        # console write and the screen order of their halves is nobody's promise - only "every line exactly once"
        # (oracle 1 above) is asserted for these runs
        ctx.count("mon.redirected_prints")
        ctx.case_done(("redir", repr(prog), strat_kind, sseed), True, {"program": prog, "strategy": strat_kind})
        return
    # each print reaches the file in ONE write call
    for w in file.writes:
        ids = {m.split(":")[1] for m in _MARK.findall(sgr.decode(w[2]).text)}
        if len({i.split(".")[0] for i in ids}) > 1:
            ctx.violation("one-write-carries-output-of-two-threads:%s" % display, dict(wit, write=w[2][:200]))
            return
    # (2) capture isolation
    ctx.count("mon.capture_isolation")
    leaked = [d for _, _, kind_, d in events if kind_ == "empty_capture_returned"]
    if leaked:
        ctx.violation("empty-capture-returned-output:%s" % display, dict(wit, captured=leaked[:3]))
        return
    for th, ops in enumerate(prog):
        for op in ops:
            if op[0] in ("capture", "batch_capture"):
                pid = op[1]
                got = captures.get(pid)
                if got is None:
                    ctx.violation("capture-returned-nothing:%s" % display, dict(wit, payload=pid))
                    return
                ct = sgr.decode(got).text
                marks = _MARK.findall(ct)
                mine = [m for m in marks if m[2:].startswith(pid)]
                foreign = [m for m in marks if not m[2:].startswith(pid)]
                if foreign:
                    ctx.violation("capture-contains-another-threads-output:%s" % display,
                                  dict(wit, payload=pid, foreign=foreign[:4], captured=ct[:200]))
                    return
                if sorted(mine) != sorted(["B:" + pid, "m:%s:0" % pid, "E:" + pid]):
                    ctx.violation("capture-lost-its-own-output:%s" % display, dict(wit, payload=pid, captured=ct[:200]))
                    return
                if ("B:%s" % pid) in re.sub(r"B:%s\d" % re.escape(pid), "", text):
                    ctx.violation("captured-output-reached-the-file:%s" % display, dict(wit, payload=pid))
                    return
    # (3) record order == file order
    ctx.count("mon.record_order")
    exported = console.export_text(clear=False)
    file_marks = [m for m in _ANYMARK.findall(text)]
    rec_marks = [m for m in _ANYMARK.findall(exported)]
    if exports:
        # conservation across clearing exports: every marker written to the file is in exactly one of the exports or in
        # what is left in the record, and each export shows its markers in file order
        ctx.count("mon.record_conservation_across_clearing_exports")
        parts = [_ANYMARK.findall(e) for e in exports] + [rec_marks]
        allm = [m for part in parts for m in part]
        if sorted(allm) != sorted(file_marks):
            lost = sorted(set(file_marks) - set(allm))
            ctx.violation("record-%s-across-a-clearing-export:%s" % ("lost" if lost else "duplicated", display),
                          dict(wit, file_order=file_marks[:24], exports=[p[:12] for p in parts], lost=lost[:8]))
            return
        pos = {m: i for i, m in enumerate(file_marks)}
        for part in parts:
            idx = [pos[m] for m in part]
            if idx != sorted(idx):
                ctx.violation("record-order-differs-from-file-order:%s" % display,
                              dict(wit, file_order=file_marks[:20], record_order=part[:20]))
                return
    elif file_marks != rec_marks:
        ctx.violation("record-order-differs-from-file-order:%s" % display,
                      dict(wit, file_order=file_marks[:20], record_order=rec_marks[:20]))
        return
    if live is None and not exports and exported != text:
        ctx.violation("export_text-differs-from-file:%s" % display, dict(wit, exported=exported[:300], file=text[:300]))
        return
    # (5) screen replay for Live displays
    restarts = any(op[0] in ("start", "stop") for ops in prog for op in ops)
    if display.startswith("live") and terminal and restarts:
        ctx.count("screen_replay_skipped_program_restarts_display")
    if display.startswith("live") and terminal and not restarts:
        ctx.count("mon.screen_replay")
        screen = term.Screen(60, console.size.height)
        screen.feed(stream)
        if screen.unknown:
            ctx.mark_inconclusive("screen model met unknown sequence %r" % screen.unknown[:2])
            return
        got = screen.lines()
        # printed lines in file order
        want = [m for m in file_marks]
        got_marks = [l for l in got if _MARK.fullmatch(l.strip()) or l.startswith("B:")]
        # last frame drawn: the frame tokens of the last write that carried any
        last_frame = None
        for w in file.writes:
            ids = _FRAME.findall(w[2])
            if ids:
                last_frame = ids
        flat = []
        for l in got:
            flat.extend(_ANYMARK.findall(l))
        frame_on_screen = [t for l in got for t in _FRAME.findall(l)]
        tainted = taint(events, file.writes)
        ctx.hist("print_vs_refresh_window_hit", "yes" if tainted else "no")
        captured_while_live = any(op[0] in ("capture", "capture_same", "batch_capture") for ops in prog for op in ops)
        ctx.hist("capture_while_live", "yes" if captured_while_live else "no")
        tall = any(len(v) >= console.size.height for v in frames.values())
        if tall:
            ctx.count("screen_replay_skipped_tall_frame")
        elif flat != want or (last_frame is not None and frame_on_screen != ([] if transient else last_frame)):
            mech = "screen-differs-from-file-order-plus-last-frame:%s" % display
            if tainted:
                mech = "print-vs-refresh-window:%s" % ("live")
            elif captured_while_live:
                mech = "capture-while-live-display:live"
            ctx.violation(mech, dict(wit, screen=got[-20:], want_marks=want[-20:], last_frame=last_frame,
                                     frame_on_screen=frame_on_screen, tainted=tainted))
            return
    # (5n) a Live display on a console that is not a terminal draws nothing while it runs and writes its frame once
    # when it stops (nothing if transient): all frame tokens in the file belong to ONE frame, each exactly once
    only_stops = restarts and not any(op[0] == "start" for ops in prog for op in ops)
    if display.startswith("live") and not terminal and (not restarts or only_stops):
        ctx.count("mon.nonterminal_final_frame")
        ids = _FRAME.findall(stream)
        labels = {i.rsplit("-", 1)[0] for i in ids}
        if "\x1b[" in stream.replace("\x1b[0m", "") and any(c in stream for c in ("\x1b[2K", "\x1b[1A", "\x1b[?25")):
            ctx.violation("cursor-control-written-to-non-terminal:%s" % display, dict(wit, stream=stream[-400:]))
            return
        if transient and ids:
            ctx.violation("transient-display-left-a-frame-in-non-terminal-output:%s" % display, dict(wit, frame_tokens=ids[:12]))
            return
        if len(labels) > 1 or len(ids) != len(set(ids)):
            ctx.violation("final-frame-written-more-than-once-to-non-terminal:%s%s" % (display, ":a-thread-stops-the-display" if only_stops else ""),
                          dict(wit, frame_tokens=ids[:20], stream=stream[-600:]))
            return
    # (5') Progress displays: no printed line lost / overwritten on screen, and exactly the rows of the last drawn
    # frame at the bottom (task descriptions are the tokens K<n>)
    if display.startswith("progress") and terminal and not restarts:
        ctx.count("mon.screen_replay_progress")
        screen = term.Screen(60, console.size.height)
        screen.feed(stream)
        if screen.unknown:
            ctx.mark_inconclusive("screen model met unknown sequence %r" % screen.unknown[:2])
            return
        got = screen.lines()
        flat = []
        for l in got:
            flat.extend(_ANYMARK.findall(l))
        krows_screen = [m for l in got for m in re.findall(r"K\d+", l)]
        last = None
        for w in file.writes:
            ks = re.findall(r"K\d+", sgr.decode(w[2]).text)
            if ks:
                last = ks
        tainted = taint(events, file.writes)
        ctx.hist("print_vs_refresh_window_hit", "yes" if tainted else "no")
        captured_while_live = any(op[0] in ("capture", "capture_same", "batch_capture") for ops in prog for op in ops)
        tall = last is not None and len(last) >= console.size.height
        if not tall and (flat != file_marks or (last is not None and krows_screen != last)):
            mech = "screen-differs-from-file-order-plus-last-frame:%s" % display
            if tainted:
                mech = "print-vs-refresh-window:progress"
            elif captured_while_live:
                mech = "capture-while-live-display:progress"
            ctx.violation(mech, dict(wit, screen=got[-20:], want_marks=file_marks[-20:], last_frame=last,
                                     frame_on_screen=krows_screen, tainted=tainted))
            return
    inter = tuple((w[1], "frame" if _FRAME.search(w[2]) else "text") for w in file.writes)
    ctx.distinct("write_interleavings(thread,kind sequences)", inter)
    ctx.distinct("schedules(choice sequences)", tuple(sched.choices or ()))
    ctx.hist("display", display)
    ctx.hist("strategy", strat_kind)
    ctx.hist("switches", min(sched.switches // 10 * 10, 100))
    sig_plan = tuple(sorted(plan_of.plan.items())) if plan_of is not None else None
    ctx.case_done(("s", repr(prog), display, terminal, strat_kind, sseed, firings, sig_plan),
                  len(writers) >= 2 and sched.switches >= 3,
                  {"display": display, "program": prog, "strategy": strat_kind, "seed": sseed,
                   "switches": sched.switches, "steps": sched.step,
                   "write_order": [w[1] for w in file.writes][:30]})


def taint(events, writes):
    """The known print-versus-refresh window: a print / log / capture operation passes the render hook, renders the
    frame and writes WITHOUT holding the live lock, so it is not atomic with the display's own refreshes.  A run is
    tainted when, inside some thread's window [hook call, file write],
      (a) the window belongs to such an unlocked operation and another thread renders or writes the live frame, or
      (b) the window belongs to a lock-holding operation (refresh, update, add_task ...) and another thread that is in
          an unlocked print / log / capture renders or writes the frame (the mirror image: the refresh's erase count
          is the stale one).
    Two lock-holding operations overlapping is NOT this mechanism: the display lock should have kept them apart."""
    unlocked = ("print", "log", "capture", "print_same", "capture_same", "batch_capture", "pyprint", "pyflush", "pywrite_multi")
    # which operation a worker thread was in at a given step
    spans = {}
    for s, t, k, d in events:
        if k == "op_begin":
            spans.setdefault(t, []).append([s, None, d[0]])
        elif k == "op_end" and spans.get(t):
            spans[t][-1][1] = s

    def op_at(thread, step):
        for a, b, kind in spans.get(thread, ()):
            if a <= step and (b is None or step <= b):
                return kind
        return None
    hooks = [(s, t, d[1], d[0]) for s, t, k, d in events if k == "hook"]
    renders = [(s, t) for s, t, k, d in events if k == "frame_render"]
    for hs, ht, hop, holds_lock in hooks:
        # the write of that thread that follows the hook
        ws = [w[0] for w in writes if w[1] == ht and w[0] >= hs]
        if not ws:
            continue
        we = min(ws)
        mine_unlocked = hop in unlocked and holds_lock is False
        # (b) only excuses a window whose owner really HOLDS the display lock, as refresh / update / add_task are meant
        # to: a refresh that has lost its lock is not the known mechanism, whoever disturbs it
        mine_locked = hop not in unlocked and holds_lock is True
        if not (mine_unlocked or mine_locked):
            continue
        for rs, rt in renders:
            if rt != ht and hs < rs <= we and (mine_unlocked or op_at(rt, rs) in unlocked):
                return True
        for w in writes:
            # (a Live frame carries F tokens, the rows of a Progress frame the task descriptions K<n>; the render event
            # above is logged when the frame's renderer is CALLED, its height is recorded a few lines later - a print
            # whose hook falls between the two is only seen through the other thread's write)
            if w[1] != ht and hs < w[0] <= we and (_FRAME.search(w[2]) or _KROW.search(w[2])) \
                    and (mine_unlocked or op_at(w[1], w[0]) in unlocked):
                return True
    return False


def workloads(tier):
    big = tier == "thorough"
    return [WL("schedules", wl_schedules, 400000 if big else 6000),
            WL("nonterminal_live", wl_nonterminal_live, 600000 if big else 24000),
            WL("concurrent_logs", wl_concurrent_logs, 400000 if big else 16000),
            WL("redirected_prints", wl_redirected_prints, 300000 if big else 12000),
            WL("bounded_preemption_dfs", wl_dfs, 2000 if big else 16)]


LEVEL_TEXT = ("Runs small multi-threaded programs on one real console under a cooperative scheduler that serialises the "
              "real threads and may preempt at every executed line of the five thread-relevant modules, every lock / "
              "event / thread operation and every file write; records every write() with its thread and checks the "
              "history offline: exactly-once contiguous delivery per print, capture isolation, record order = file "
              "order, deadlock (wait-for graph) and, for Live displays, a screen-model replay. Seeded random-walk and "
              "PCT schedules are explored, not enumerated.")
LEVEL_NOTE = "Trusted: the scheduler / proxies (rv/sched), rv/model/term.py, CPython's sys.monitoring."
TECHNIQUE = "runtime monitoring: offline checker over recorded write histories of real threads serialised by a cooperative scheduler (PCT / random schedules), with deadlock detection on lock proxies"
