"""C06 - styles form a consistent algebra, round-trip through text, and hash consistently."""
import os
import re

from rv.core import env
from rv.core.runner import WL
from rv.gen import styles as G
from rv.model import docs_colors

ID = "C06"
LEVEL = "exploration"
RULE = ("random styles over 13 tri-state attributes x {unset, default, named, color(n), #rrggbb, rgb()} "
        "fg/bg x optional link, each with a generator-side expectation record; triples for the algebra; "
        ">=8 construction routes per record for eq=>hash; every documented colour name/number and attribute "
        "spelling parsed from docs at run time. Non-trivial: the style sets >=2 fields (algebra: the "
        "operands overlap in >=1 field); distinct by canonical record.")
ASSUMPTIONS = ["docs/source/appendix/colors.rst and docs/source/style.rst are the documentation oracle",
               "equality of colours is judged by (type, number, triplet), not by the Color.name string"]
REQUIRED = ["mon.second_level", "mon.identity", "mon.assoc", "mon.right_bias", "mon.roundtrip_str", "mon.normalize",
            "mon.eq_hash_pairs", "mon.dict_lookup", "mon.doc_color", "mon.doc_attr", "mon.route", "mon.fold_of_untouched_operands"]
MIN_NONTRIVIAL = {"quick": 3000, "thorough": 100000}


def _S():
    from rich.style import Style
    return Style


def _chk_view(ctx, mech, style, rec, extra):
    got, want = G.view(style), G.expected_view(rec)
    if got != want:
        ctx.violation(mech, dict(extra, got=got, want=want))
        return False
    return True


def _hash_group(ctx, styles, what):
    """styles[0] is the keyword-built reference (hash computed at construction).  Every other style
    that compares == to it must hash equal and be found by it in dict / set.  The mechanism key
    names the construction route whose hash is off."""
    ref_name, ref = styles[0]
    for name, s in styles[1:]:
        if s == ref:
            ctx.count("mon.eq_hash_pairs")
            if hash(s) != hash(ref):
                ctx.violation("eq-but-hash-differs:" + name,
                              dict(what, s1=str(ref), s2=str(s), route_1=ref_name, route_2=name))
            else:
                ctx.count("mon.dict_lookup")
                if s not in {ref: 1} or ref not in {s} or len({ref, s}) != 1:
                    ctx.violation("eq-but-dict-miss:" + name, dict(what, s1=str(ref), s2=str(s)))


def _used(style, rng):
    """A source style that has been around: its text form / hash / ANSI codes may already have been asked for
    (they are computed lazily and kept on the object) before something is derived from it."""
    r = rng.random()
    if r < 0.4:
        str(style)
    if 0.2 < r < 0.6:
        hash(style)
    if 0.5 < r < 0.7:
        style.render("x")
    return style


def routes(rec, rng):
    """[(route name, Style)] - all should denote the style described by rec."""
    Style = _S()
    from rich.color import Color
    out = []
    base = G.build(rec)
    out.append(("kwargs", base))
    out.append(("parse", Style.parse(G.definition(rec, rng, short=True, randcase=True))))
    # bypass parse's lru_cache as well (a cached object may have been mutated: _ansi, _hash ...)
    out.append(("parse_uncached", Style.parse.__wrapped__(Style, G.definition(rec, rng))))
    # sum of single-field styles in shuffled order
    parts = [Style(**{a: v}) for a, v in rec["attrs"].items()]
    if rec["fg"] is not None:
        parts.append(Style(color=G.spell(rec["fg"])))
    if rec["bg"] is not None:
        parts.append(Style(bgcolor=G.spell(rec["bg"])))
    if rec["link"] is not None:
        parts.append(Style(link=rec["link"]))
    rng.shuffle(parts)
    if parts:
        acc = parts[0]
        for p in parts[1:]:
            acc = acc + p
        out.append(("sum", acc))
        out.append(("chain", Style.chain(*parts)))
        out.append(("combine", Style.combine(parts)))
        out.append(("null_plus_sum", Style() + acc))
    out.append(("copy", _used(base, rng).copy()))
    import copy as _copy
    import pickle as _pickle
    out.append(("copy.copy", _copy.copy(_used(base, rng))))
    out.append(("copy.deepcopy", _copy.deepcopy(_used(G.build(rec), rng))))
    out.append(("pickle", _pickle.loads(_pickle.dumps(_used(G.build(rec), rng)))))
    # link-updated
    nolink = dict(rec, link=None)
    if rec["link"] is not None or not G.is_null(nolink):
        out.append(("update_link", _used(G.build(nolink), rng).update_link(rec["link"])))
        out.append(("update_link_twin", _used(G.build(dict(rec, link="http://other/")), rng).update_link(rec["link"])))
    # colour-stripped twin
    if rec["fg"] is None and rec["bg"] is None:
        twin = dict(rec, fg=("named", "red", 1), bg=("hex", 1, 2, 3))
        out.append(("without_color", _used(G.build(twin), rng).without_color))
    # from_color
    if not rec["attrs"] and rec["link"] is None:
        fg = Color.parse(G.spell(rec["fg"])) if rec["fg"] is not None else None
        bg = Color.parse(G.spell(rec["bg"])) if rec["bg"] is not None else None
        out.append(("from_color", Style.from_color(fg, bg)))
    # keyword construction with Color objects
    kw = dict(rec["attrs"])
    if rec["fg"] is not None:
        kw["color"] = Color.parse(G.spell(rec["fg"]))
    if rec["bg"] is not None:
        kw["bgcolor"] = Color.parse(G.spell(rec["bg"]))
    if rec["link"] is not None:
        kw["link"] = rec["link"]
    out.append(("kwargs_color_objects", Style(**kw)))
    if (rec["fg"] and rec["fg"][0] == "rgb") or (rec["bg"] and rec["bg"][0] == "rgb"):
        # rgb(...) written with blanks after the commas / inside the parentheses (accepted by Color.parse, and so by
        # the keyword route)
        kw2 = dict(kw)
        for key, spec in (("color", rec["fg"]), ("bgcolor", rec["bg"])):
            if spec and spec[0] == "rgb":
                # (the pattern's \\s and int() take every Unicode blank, not only the ASCII ones)
                kw2[key] = rng.choice(["rgb(%d, %d, %d)", "rgb( %d,%d,%d )", "RGB(%d ,%d ,%d)", "rgb(%d,\u3000%d,%d)",
                                       "rgb(%d,%d\xa0,%d)", "rgb(%d,\t%d,\x85%d)", "rgb(\u2003%d,%d,%d\u2028)"]) % tuple(spec[1:])
        out.append(("kwargs_rgb_with_blanks", Style(**kw2)))
    if rec["link"] is None:
        # "no link" spelled as an empty string by the caller (a template value, an unset config entry)
        out.append(("kwargs_empty_link", Style(link="", **kw)))
        if not G.is_null(nolink):
            out.append(("update_link_empty", G.build(nolink).update_link("")))
    out.append(("parse_str", Style.parse(str(base))))
    return out


def wl_routes(ctx, rng, case_no):
    Style = _S()
    rec = G.rand_record(rng)
    what = {"record": rec}
    rs = routes(rec, rng)
    for name, s in rs:
        ctx.count("mon.route")
        ctx.hist("route", name)
        _chk_view(ctx, "route-gives-wrong-style:" + name, s, rec, dict(what, route=name))
    _hash_group(ctx, rs, what)
    # round trips: the text form of EVERY route's object parses back to an equal style
    for name, s in rs:
        ctx.count("mon.roundtrip_str")
        text = str(s)
        try:
            back = Style.parse(text)
        except Exception as e:
            ctx.violation("str-does-not-parse:" + name, dict(what, route=name, text=text, error=repr(e)))
            continue
        if not (back == s):
            ctx.violation("str-roundtrip-not-equal:" + name, dict(what, route=name, text=text, back=str(back)))
    # second level: whatever route made a style, it behaves as that style in every further operation (a flag that a
    # route computes wrongly - "is this the null style?" - only shows when the object is USED)
    other = G.rand_record(rng, p_attr=0.15)
    other_style = G.build(other)
    for name, s in rs:
        ctx.count("mon.second_level")
        what2 = dict(what, route=name, other=other)
        ok = (_chk_view(ctx, "derived-style-misbehaves:copy-of:" + name, s.copy(), rec, what2)
              and _chk_view(ctx, "derived-style-misbehaves:null-plus:" + name, Style() + s, rec, what2)
              and _chk_view(ctx, "derived-style-misbehaves:plus-null:" + name, s + Style(), rec, what2)
              and _chk_view(ctx, "derived-style-misbehaves:other-plus:" + name, other_style + s, G.add_records(other, rec), what2)
              and _chk_view(ctx, "derived-style-misbehaves:plus-other:" + name, s + other_style, G.add_records(rec, other), what2))
        if ok and rec["fg"] is None and rec["bg"] is None:
            ok = _chk_view(ctx, "derived-style-misbehaves:without_color-of:" + name, s.without_color, rec, what2)
        if not ok:
            break
    base = rs[0][1]
    text = str(base)
    back = Style.parse(text)
    ctx.count("mon.roundtrip_str")
    if not (back == base and _chk_view(ctx, "str-roundtrip-changes-style", back, rec, what)):
        ctx.violation("str-roundtrip-not-equal", dict(what, text=text, back=str(back)))
    d = G.definition(rec, rng, short=True, randcase=True)
    n1 = Style.normalize(d)
    n2 = Style.normalize(n1)
    ctx.count("mon.normalize")
    if n1 != n2:
        ctx.violation("normalize-not-idempotent", dict(what, d=d, n1=n1, n2=n2))
    if not (Style.parse(n1) == Style.parse(d)):
        ctx.violation("normalize-changes-style", dict(what, d=d, n1=n1))
    nfields = len(rec["attrs"]) + (rec["fg"] is not None) + (rec["bg"] is not None) + (rec["link"] is not None)
    ctx.case_done(("rec", G.definition(rec)), nfields >= 2, {"record": rec, "definition": d, "str": text})


def wl_algebra(ctx, rng, case_no):
    Style = _S()
    p = rng.choice([0.1, 0.3, 0.5])
    recs = [G.rand_record(rng, p_attr=p, p_link=0.3) for _ in range(3)]
    if rng.random() < 0.15:
        recs[rng.randrange(3)] = {"attrs": {}, "fg": None, "bg": None, "link": None}
    build = rng.choice(["kwargs", "parse", "mixed", "derived", "derived"])

    def derived(rec):
        # an operand that is itself the result of an operation (nothing has asked for its hash or text form yet):
        # the sum of two halves of the record, or the link put on afterwards
        names = sorted(rec["attrs"])
        cut = rng.randint(0, len(names))
        one = {"attrs": {n: rec["attrs"][n] for n in names[:cut]}, "fg": rec["fg"], "bg": None, "link": None}
        two = {"attrs": {n: rec["attrs"][n] for n in names[cut:]}, "fg": None, "bg": rec["bg"], "link": None}
        st = G.build(one) + G.build(two)
        if rec["link"] is not None:
            st = st.update_link(rec["link"]) if rng.random() < 0.5 else st + Style(link=rec["link"])
        return st

    def mk(rec):
        if build == "derived":
            ctx.count("mon.derived_operands")
            return derived(rec)
        if build == "kwargs" or (build == "mixed" and rng.random() < 0.5):
            if rec["link"] is None and rng.random() < 0.1:
                return G.build(rec) + Style(link="") if rng.random() < 0.5 else Style(link="") + G.build(rec)
            return G.build(rec)
        return Style.parse(G.definition(rec, rng))
    a, b, c = (mk(r) for r in recs)
    ra, rb, rc = recs
    what = {"a": ra, "b": rb, "c": rc, "built_by": build}
    null = rng.choice([Style(), Style.null(), Style.parse("none"), Style.parse("")])
    if build == "derived":
        # before anything looks at the operands (comparisons compute and keep their hashes): the folds over them
        ctx.count("mon.fold_of_untouched_operands")
        want3 = G.add_records(G.add_records(ra, rb), rc)
        _chk_view(ctx, "chain-not-the-sum-of-its-operands", Style.chain(a, b, c), want3, dict(what, via="chain"))
        _chk_view(ctx, "chain-not-the-sum-of-its-operands", Style.combine([a, b, c]), want3, dict(what, via="combine"))
        _chk_view(ctx, "chain-not-the-sum-of-its-operands", Style.combine(iter([a, b, c, c])), want3, dict(what, via="combine-iterator"))
    # identity
    for s, r in ((a, ra), (b, rb)):
        ctx.count("mon.identity")
        left, right = null + s, s + null
        if not (left == s and right == s):
            ctx.violation("null-not-identity", dict(what, s=str(s)))
        elif hash(left) != hash(s) or hash(right) != hash(s):
            ctx.violation("eq-but-hash-differs:identity", dict(what, s=str(s)))
        if not (s + None == s):
            ctx.violation("none-not-identity", dict(what, s=str(s)))
    # right bias
    ab = a + b
    ctx.count("mon.right_bias")
    _chk_view(ctx, "add-not-right-biased", ab, G.add_records(ra, rb), what)
    # associativity
    l = (a + b) + c
    r = a + (b + c)
    ctx.count("mon.assoc")
    want = G.add_records(G.add_records(ra, rb), rc)
    okl = _chk_view(ctx, "add-not-right-biased", l, want, dict(what, side="(a+b)+c"))
    okr = _chk_view(ctx, "add-not-right-biased", r, want, dict(what, side="a+(b+c)"))
    if not (l == r):
        ctx.violation("add-not-associative", dict(what, l=str(l), r=str(r)))
    twin = G.build(want)
    fold = Style.chain(a, b, c)
    comb = Style.combine([a, b, c])
    _hash_group(ctx, [("kwargs", twin), ("(a+b)+c", l), ("a+(b+c)", r), ("chain", fold),
                      ("combine", comb)], what)
    _hash_group(ctx, [("kwargs", G.build(G.add_records(ra, rb))), ("a+b", ab)], what)
    if not (fold == l and comb == l):
        ctx.violation("chain-combine-disagree-with-add", dict(what, fold=str(fold), comb=str(comb)))
    overlap = (set(ra["attrs"]) & set(rb["attrs"])) or (ra["fg"] and rb["fg"]) or (ra["bg"] and rb["bg"]) \
        or (ra["link"] and rb["link"])
    ctx.case_done(("alg", G.definition(ra), G.definition(rb), G.definition(rc)), bool(overlap),
                  {"a": G.definition(ra), "b": G.definition(rb), "c": G.definition(rc), "sum": str(l)})


def _doc_attr_spellings():
    path = os.path.join(env.REPO, "docs", "source", "style.rst")
    out = []
    for line in open(path, encoding="utf-8"):
        m = re.match(r'^\* ``"(\w+)"``(?: or ``"(\w+)"``)? for ', line)
        if m:
            out.append((m.group(1), m.group(1)))
            if m.group(2):
                out.append((m.group(2), m.group(1)))
    assert len(out) >= 18, out
    return out


def wl_docs(ctx):
    """Every documented spelling parses to the style it names (exhaustive over the docs tables)."""
    Style = _S()
    from rich.color import Color
    rng = ctx.rng("docs", ctx.shard)
    rows = docs_colors.rows()
    n = 0
    for idx, (number, name, rgb) in enumerate(rows):
        if idx % ctx.nshards != ctx.shard:
            continue
        for spelling in (name, name.upper(), "".join(ch.upper() if rng.random() < 0.5 else ch for ch in name)):
            for ground in ("fg", "bg"):
                d = spelling if ground == "fg" else "on " + spelling
                s = Style.parse(d)
                c = s.color if ground == "fg" else s.bgcolor
                ctx.count("mon.doc_color")
                want = ("standard" if number < 16 else "eight_bit", number, None)
                if G.color_view(c) != want:
                    ctx.violation("documented-colour-name-wrong", {"definition": d, "got": G.color_view(c),
                                                                   "want": want})
                other = s.bgcolor if ground == "fg" else s.color
                if other is not None or G.view(s)["attrs"] or s.link:
                    ctx.violation("documented-colour-sets-extra-fields", {"definition": d, "style": str(s)})
        n += 1
        ctx.case_done(("docname", name), True, {"name": name, "number": number})
    for number in range(ctx.shard, 256, ctx.nshards):
        for d in ("color(%d)" % number, "COLOR(%d)" % number):
            c = Style.parse(d).color
            ctx.count("mon.doc_color")
            want = ("standard" if number < 16 else "eight_bit", number, None)
            if G.color_view(c) != want:
                ctx.violation("documented-colour-number-wrong", {"definition": d, "got": G.color_view(c)})
        ctx.case_done(("docnum", number), True, None)
    if ctx.shard == 0:
        for d, want in (("#af00ff", ("truecolor", None, (175, 0, 255))),
                        ("rgb(175,0,255)", ("truecolor", None, (175, 0, 255))),
                        ("#AF00FF", ("truecolor", None, (175, 0, 255))),
                        ("default", ("default", None, None))):
            ctx.count("mon.doc_color")
            if G.color_view(Style.parse(d).color) != want:
                ctx.violation("documented-colour-form-wrong", {"definition": d})
        s = Style.parse("default on default")
        if G.color_view(s.color) != ("default", None, None) or G.color_view(s.bgcolor) != ("default", None, None):
            ctx.violation("documented-colour-form-wrong", {"definition": "default on default"})
        spellings = _doc_attr_spellings() + [("dim", "dim"), ("d", "dim"), ("c", "conceal")]
        for word, attr in spellings:
            for w in (word, word.upper()):
                for neg in (False, True):
                    if neg and w != word:
                        continue  # case of the word after "not" is not documented
                    d = ("not " if neg else "") + w
                    s = Style.parse(d)
                    ctx.count("mon.doc_attr")
                    want = {"attrs": {attr: not neg}, "fg": None, "bg": None, "link": None}
                    if G.view(s) != want:
                        ctx.violation("documented-attribute-spelling-wrong",
                                      {"definition": d, "got": G.view(s), "want": want})
            ctx.case_done(("docattr", word), True, {"word": word, "attribute": attr})
        # documented examples
        for d, rec in (("blink bold red underline on white",
                        {"attrs": {"blink": True, "bold": True, "underline": True},
                         "fg": ("standard", 1, None), "bg": ("standard", 7, None), "link": None}),
                       ("link https://google.com",
                        {"attrs": {}, "fg": None, "bg": None, "link": "https://google.com"}),
                       ("italic magenta on yellow",
                        {"attrs": {"italic": True}, "fg": ("standard", 5, None),
                         "bg": ("standard", 3, None), "link": None})):
            ctx.count("mon.doc_attr")
            if G.view(Style.parse(d)) != rec:
                ctx.violation("documented-example-wrong", {"definition": d, "got": G.view(Style.parse(d))})


def wl_link_with_blank(ctx):
    """Links that contain a blank (a file:// URL of a path with spaces - rich builds such links from file names): the
    text form 'link <url>' is split at blanks when it is parsed."""
    Style = _S()
    if ctx.shard != 0:
        return
    for link in ("a b", "file:///home/me/my notes/plan b.py", "https://example.org/a%20b c", " ", "x\ty"):
        for kw in ({}, {"bold": True}, {"color": "red"}):
            s = Style(link=link, **kw)
            ctx.count("mon.link_with_blank")
            text = str(s)
            try:
                ok = Style.parse(text) == s
            except Exception:
                ok = False
            if not ok:
                ctx.violation("str-roundtrip-fails-for-a-link-containing-a-blank", {"link": link, "other": kw, "text": text})
            ctx.case_done(("lb", link, repr(kw)), True, {"link": link})


def workloads(tier):
    big = tier == "thorough"
    return [WL("docs", wl_docs, kind="custom"),
            WL("link_with_blank", wl_link_with_blank, kind="custom"),
            WL("routes", wl_routes, 600000 if big else 80000),
            WL("algebra", wl_algebra, 900000 if big else 120000)]


LEVEL_TEXT = ("Runs the real Style / Color code on seeded random styles and triples and compares with "
              "generator-side expectation records (never read back from Rich); eq=>hash is checked over every "
              "pair of >=8 construction routes to the same record and over sums; documented names/numbers and "
              "attribute words are enumerated exhaustively from the docs tables. Held = no disagreement on the "
              "cases produced.")
LEVEL_NOTE = "Trusted: the docs tables as the naming oracle; CPython dict/set semantics."
TECHNIQUE = "runtime monitoring: algebraic-law and expectation-record oracles over generated styles; pairwise eq/hash monitor across construction routes"
