"""C03 - the ANSI stream written means exactly what the styled segments say."""
import io

from rv.core.runner import WL
from rv.gen import strings as S
from rv.gen import styles as G
from rv.model import sgr

ID = "C03"
LEVEL = "exploration"
RULE = ("random lists of 1-12 segments (printable text of every width class, newlines; style = record over 13 "
        "tri-state attributes x fg x bg x link, or unstyled; unstyled control segments) printed through consoles "
        "over colour system {None, standard, 256, truecolor, windows} x no_color x is_terminal x legacy_windows, "
        "decoded by the independent SGR/OSC-8 model; plus printed Text with spans/base style; plus an exhaustive "
        "slice (each attribute x {True, False} x each system, all attribute pairs, each colour kind as fg and bg); "
        "plus a class that shares ONE Style object between two consoles with different colour systems. "
        "Non-trivial: >=2 segments with different visible styles; distinct by (segments, console configuration).")
ASSUMPTIONS = ["Color.downgrade is trusted here for the expected colour after down-conversion (decided by C18)",
               "control segments are unstyled, as Console.control creates them",
               "segment texts contain no ESC / C0 control characters"]
REQUIRED = ["mon.detected_terminal_phase", "mon.stream_decoded", "mon.char_compared", "mon.no_escape_when_colour_off", "mon.no_color",
            "mon.not_terminal", "mon.shared_style", "mon.exhaustive_attr", "mon.derived_style", "mon.live_frame_under_print_style"]
MIN_NONTRIVIAL = {"quick": 5000, "thorough": 200000}

SYSTEMS = [None, "standard", "256", "truecolor", "windows"]
CONTROLS = ["\x1b[1A", "\x1b[2K", "\r", "\x07", "\x1b[?25l", "\x1b[?25h", "\x1b[2J", "\x1b[H"]


class SegList:
    def __init__(self, segments):
        self.segments = segments

    def __rich_console__(self, console, options):
        yield from self.segments


class LazySegList:
    """Builds every Segment - and a fresh Style object for it - only when the console asks for the next one, as a
    renderable that computes its output on the fly does; nothing keeps the earlier Style objects alive."""

    def __init__(self, items):
        self.items = items

    def __rich_console__(self, console, options):
        from rich.segment import Segment
        for kind, text, rec in self.items:
            if kind == "control":
                yield Segment.control(text, G.build(rec)) if rec is not None else Segment.control(text)
            elif rec is None:
                yield Segment(text)
            else:
                yield Segment(text, G.build(rec))


_no_color_route = [0]


def make_console(system, no_color=False, terminal=True, legacy=False, **kw):
    """`no_color` is the EFFECTIVE setting; how it is expressed rotates: the constructor flag (True / False, with the
    NO_COLOR variable set or not - the flag wins) or the variable alone (flag left at None)."""
    from rich.console import Console
    _no_color_route[0] += 1
    r = _no_color_route[0] % 4
    if no_color:
        flag, env = [(True, {}), (None, {"NO_COLOR": "1"}), (True, {"NO_COLOR": ""}), (None, {"NO_COLOR": ""})][r]
    else:
        flag, env = [(False, {}), (None, {}), (False, {"NO_COLOR": "1"}), (False, {"NO_COLOR": ""})][r]
    return Console(file=io.StringIO(), width=kw.pop("width", 400), color_system=system,
                   force_terminal=terminal, legacy_windows=legacy, no_color=flag,
                   _environ=env, **kw)


def expected_color(spec, system, no_color):
    """Model colour (None | ("idx", n) | ("rgb", t)) for a colour spec on a console."""
    if spec is None or system is None or no_color:
        return None
    from rich.color import Color, ColorType
    from rich.console import COLOR_SYSTEMS
    c = Color.parse(G.spell(spec)).downgrade(COLOR_SYSTEMS[system])
    if c.type == ColorType.DEFAULT:
        return None
    if c.type == ColorType.TRUECOLOR:
        return ("rgb", tuple(c.triplet))
    return ("idx", c.number)


def expected_char(rec, system, no_color, legacy):
    if rec is None or system is None:
        return (frozenset(), None, None, None)
    return (G.on_attrs(rec), expected_color(rec["fg"], system, no_color),
            expected_color(rec["bg"], system, no_color),
            None if legacy else rec["link"])


def gen_segments(rng):
    w = S.pick_weights(rng)
    palette = [G.rand_record(rng) for _ in range(3)]
    if rng.random() < 0.4:
        # near-twins: styles that differ in one attribute value / one field only, side by side in one flush
        palette[1] = G.near_twin(palette[0], rng)
        if rng.random() < 0.5:
            palette[2] = G.near_twin(palette[0], rng)
    items = []
    for _ in range(rng.randint(1, 12)):
        r = rng.random()
        if r < 0.1:
            # (Segment.control takes a style too: it styles nothing visible, and must not turn the control code into
            # something a non-terminal receives)
            items.append(("control", rng.choice(CONTROLS), rng.choice(palette) if rng.random() < 0.2 else None))
            continue
        text = S.free_string(rng, rng.choice([0, 1, 3, 8, 20]), w, space=0.15, newline=0.05)
        if rng.random() < 0.08:
            pos = rng.randint(0, len(text))
            text = text[:pos] + rng.choice(G.HOSTILE_FRAGMENTS) + text[pos:]
        r = rng.random()
        if r < 0.2:
            rec = None
        elif r < 0.6:
            rec = rng.choice(palette)
        else:
            rec = G.rand_record(rng)
        items.append(("text", text, rec))
    return items


def real_segments(items, cache=None):
    from rich.segment import Segment
    out = []
    for kind, text, rec in items:
        if kind == "control":
            out.append(Segment.control(text, G.build(rec)) if rec is not None else Segment.control(text))
        elif rec is None:
            out.append(Segment(text))
        else:
            if cache is not None:
                key = G.definition(rec)
                style = cache.get(key)
                if style is None:
                    style = cache[key] = G.build(rec)
            else:
                style = G.build(rec)
            out.append(Segment(text, style))
    return out


def check_stream(ctx, stream, items, cfg, wit, mech_suffix=""):
    system, no_color, terminal, legacy = cfg
    d = sgr.decode(stream)
    ctx.count("mon.stream_decoded")
    if d.unexpected:
        ctx.violation("unexpected-sequence-in-stream" + mech_suffix, dict(wit, unexpected=d.unexpected[:3]))
        return False
    want = []
    want_controls = []
    for kind, text, rec in items:
        if kind == "control":
            if terminal:
                want_controls.append(text)
            continue
        e = expected_char(rec, system, no_color, legacy)
        want.extend((c,) + e for c in text)
    if d.text != "".join(c[0] for c in want):
        ctx.violation("visible-characters-differ" + mech_suffix, dict(wit, got=d.text))
        return False
    for i, (g, w) in enumerate(zip(d.chars, want)):
        ctx.count("mon.char_compared")
        if g != w:
            field = [n for n, a, b in zip(("char", "attrs", "fg", "bg", "link"), g, w) if a != b]
            unstyled = w[1:] == (frozenset(), None, None, None)
            mech = "style-leaks-onto-unstyled-text" if unstyled else "decoded-%s-differs" % "+".join(field)
            ctx.violation(mech + mech_suffix, dict(wit, index=i, char=g[0], got=_cj(g), want=_cj(w)))
            return False
    if d.final_state != (frozenset(), None, None, None):
        ctx.violation("style-left-open-at-end-of-stream" + mech_suffix, dict(wit, state=repr(d.final_state)))
        return False
    got_controls = "".join(d.controls)
    if got_controls != "".join(want_controls):
        ctx.violation(("control-codes-written-to-non-terminal" if not terminal else "control-codes-differ")
                      + mech_suffix, dict(wit, got=d.controls))
        return False
    if system is None:
        ctx.count("mon.no_escape_when_colour_off")
        body = stream
        for c in want_controls:
            body = body.replace(c, "", 1)
        if "\x1b" in body:
            ctx.violation("escape-sequence-with-colour-disabled" + mech_suffix, wit)
            return False
    if no_color:
        ctx.count("mon.no_color")
        if d.color_params:
            ctx.violation("colour-parameters-with-NO_COLOR" + mech_suffix, dict(wit, n=d.color_params))
            return False
    if not terminal:
        ctx.count("mon.not_terminal")
    return True


def _cj(c):
    return {"char": c[0], "on": sorted(c[1]), "fg": c[2], "bg": c[3], "link": c[4]}


def _items_json(items):
    return [(k, t, G.definition(r) if r else None) for k, t, r in items]


def rand_cfg(rng):
    return (rng.choice(SYSTEMS), rng.random() < 0.2, rng.random() < 0.75, rng.random() < 0.2)


def wl_segments(ctx, rng, case_no):
    from rv.model import textview as TV
    items = gen_segments(rng)
    cfg = rand_cfg(rng)
    system, no_color, terminal, legacy = cfg
    # optionally a console-wide style and / or a print(style=...): both are applied UNDER the segment's own style
    cstyle = G.rand_record(rng, p_attr=0.1, p_link=0.0) if rng.random() < 0.15 else None
    pstyle = G.rand_record(rng, p_attr=0.1, p_link=0.0) if rng.random() < 0.2 else None
    console = make_console(system, no_color, terminal, legacy, **({"style": G.build(cstyle)} if cstyle else {}))
    wit = {"segments": _items_json(items), "color_system": system, "no_color": no_color,
           "is_terminal": terminal, "legacy_windows": legacy,
           "console_style": G.definition(cstyle) if cstyle else None, "print_style": G.definition(pstyle) if pstyle else None}
    lazy = rng.random() < 0.3
    wit["segments_built"] = "lazily, one fresh Style per segment" if lazy else "up front"
    console.print(LazySegList(items) if lazy else SegList(real_segments(items)), crop=False,
                  style=G.build(pstyle) if pstyle else None)
    stream = console.file.getvalue()
    wit["stream"] = stream
    expect_items = items
    if cstyle or pstyle:
        under = [r for r in (pstyle, cstyle) if r]
        expect_items = [(k, t, TV.fold_records(under + ([r] if r else [])) if k == "text" else r) for k, t, r in items]
    check_stream(ctx, stream, expect_items, cfg, wit)
    ctx.hist("config", "%s%s%s%s" % (system, "/no_color" if no_color else "", "" if terminal else "/notty",
                                     "/legacy" if legacy else ""))
    vis = {G.definition(r) if r else None for k, t, r in items if k == "text" and t}
    ctx.case_done(("seg", repr(wit["segments"]), cfg), len(vis) >= 2, wit)


def wl_text(ctx, rng, case_no):
    """Printed Text with spans and a print(style=...): the expectation is the fold of the layers."""
    from rich.text import Text
    from rv.model import textview as TV
    cfg = rand_cfg(rng)
    system, no_color, terminal, legacy = cfg
    console = make_console(system, no_color, terminal, legacy, width=500)
    w = S.pick_weights(rng)
    s = S.free_string(rng, 30, w, space=0.15, min_len=1)
    n = len(s)
    layers = [[] for _ in range(n)]
    t = Text(s, end="")
    base = G.rand_record(rng, p_attr=0.1) if rng.random() < 0.3 else None
    if base:
        t.style = G.build(base)
    spans = []
    prev = None
    for _ in range(rng.randint(0, 5)):
        rec = G.rand_record(rng, p_attr=0.1)
        if prev is not None and rng.random() < 0.35:
            rec = G.near_twin(prev, rng)        # a span whose style differs from the previous one in one place only
        prev = rec
        a = rng.randint(0, n)
        b = rng.randint(a, n)
        if b > a:
            t.stylize(G.build(rec) if rng.random() < 0.5 else G.definition(rec), a, b)
            spans.append((G.definition(rec), a, b))
            for i in range(a, b):
                layers[i].append(rec)
    pstyle = G.rand_record(rng, p_attr=0.1) if rng.random() < 0.3 else None
    # the text as the frame of a live display (LiveRender hands its lines over as pre-laid-out segments): what a
    # print(style=...) made while the display runs writes for the frame is the frame in its OWN styles
    as_frame = terminal and rng.random() < 0.15
    if as_frame:
        from rich.live_render import LiveRender
        ctx.count("mon.live_frame_under_print_style")
        console.print(LiveRender(t), style=G.build(pstyle) if pstyle else None, crop=False, end="")
    else:
        console.print(t, style=G.build(pstyle) if pstyle else None, crop=False, no_wrap=True, overflow="ignore",
                      end="")
    stream = console.file.getvalue()
    items = []
    for i, ch in enumerate(s):
        # print(style=) is applied *under* the text's own styles (Segment.apply_style(style=...))
        recs = ([pstyle] if pstyle and not as_frame else []) + ([base] if base else []) + layers[i]
        rec = TV.fold_records(recs) if recs else None
        items.append(("text", ch, rec))
    wit = {"text": s, "spans": spans, "base": G.definition(base) if base else None,
           "print_style": G.definition(pstyle) if pstyle else None, "color_system": system,
           "no_color": no_color, "is_terminal": terminal, "legacy_windows": legacy, "stream": stream}
    wit["as_live_frame"] = as_frame
    check_stream(ctx, stream, items, cfg, wit, ":live-frame" if as_frame else ":printed-text")
    ctx.case_done(("txt", repr(wit)), len(spans) >= 1, wit)


class _File(io.StringIO):
    """A text file that says itself whether it is a terminal (what Console asks when force_terminal is None)."""

    def __init__(self, tty):
        super().__init__()
        self._tty = tty

    def isatty(self):
        return self._tty


def wl_detected(ctx, rng, case_no):
    """The console DETECTS whether its target is a terminal (force_terminal=None) and the program points it at
    other files during its life (the documented Console.file setter: a terminal, then a log file, ...).
    Every phase's stream is decoded on its own; controls may appear only in the phases whose file is a terminal."""
    from rich.console import Console
    system = rng.choice(SYSTEMS)
    no_color = rng.random() < 0.15
    phases = [rng.random() < 0.5 for _ in range(rng.randint(2, 4))]
    if len(set(phases)) == 1:
        phases[rng.randrange(len(phases))] = not phases[0]
    files = [_File(tty) for tty in phases]
    console = Console(file=files[0], width=400, color_system=system, force_terminal=None, legacy_windows=False,
                      no_color=no_color, _environ={})
    wit = {"color_system": system, "no_color": no_color, "phases_is_terminal": phases, "phase_segments": []}
    ok = True
    for i, (tty, f) in enumerate(zip(phases, files)):
        if i:
            console.file = f
        items = gen_segments(rng)
        if not any(k == "control" for k, _, _ in items):
            items.insert(rng.randint(0, len(items)), ("control", rng.choice(CONTROLS), None))
        wit["phase_segments"].append(_items_json(items))
        console.print(SegList(real_segments(items)), crop=False)
        ctx.count("mon.detected_terminal_phase")
        if console.is_terminal != tty:
            ctx.violation("is_terminal-differs-from-current-file", dict(wit, phase=i, got=console.is_terminal))
            ok = False
            break
        if not check_stream(ctx, f.getvalue(), items, (system, no_color, tty, False),
                            dict(wit, phase=i, stream=f.getvalue()), ":after-file-switch" if i else ""):
            ok = False
            break
    ctx.case_done(("det", repr(wit)), ok and len(phases) >= 2, wit)


def wl_shared_style(ctx, rng, case_no):
    """One Style object used on two consoles with different colour systems, in both orders -
    what Style.parse's cache does to every program that has two consoles."""
    items = [it for it in gen_segments(rng) if it[0] == "text"]
    sys_a, sys_b = rng.sample(["standard", "256", "truecolor", "windows"], 2)
    cache = {}
    segs = real_segments(items, cache)
    # the tour also passes consoles with NO_COLOR in force - of the SAME colour system as a console that has already
    # rendered these style objects, and of another one
    import random as _random
    r2 = _random.Random("tour/%d" % case_no)
    tour = [(sys_a, False), (sys_b, False), (sys_a, False)]
    if r2.random() < 0.5:
        tour = r2.choice([[(sys_a, False), (sys_a, True), (sys_b, False), (sys_a, False)],
                          [(sys_a, True), (sys_a, False), (sys_a, True)],
                          [(sys_a, False), (sys_b, True), (sys_b, False), (sys_b, True)]])
    for system, no_color in tour:
        cfg = (system, no_color, True, False)
        console = make_console(system, no_color=no_color)
        console.print(SegList(segs), crop=False)
        stream = console.file.getvalue()
        ctx.count("mon.shared_style")
        wit = {"segments": _items_json(items), "order": tour, "now": [system, no_color], "stream": stream}
        if not check_stream(ctx, stream, items, cfg, wit, ":style-object-shared-between-colour-systems"):
            break
    coloured = any(r and (r["fg"] or r["bg"]) for _, _, r in items)
    ctx.case_done(("shared", repr(_items_json(items)), sys_a, sys_b), coloured,
                  {"segments": _items_json(items), "systems": [sys_a, sys_b]})


def wl_derived_style(ctx, rng, case_no):
    """Styles derived from styles that were ALREADY rendered: a style memoises its escape codes the first time it is
    written, and everything made from it afterwards (a + b, Style.combine / chain, copy) has to carry codes of its own.
    The right-hand operands lean towards the small ones a program adds on top of a theme style: only a link, only a
    default background, only one attribute."""
    from rich.segment import Segment
    from rich.style import Style
    from rv.model import textview as TV
    w = S.pick_weights(rng)
    system = rng.choice(["standard", "256", "truecolor", "windows"])
    other = rng.choice(["standard", "256", "truecolor", "windows"])
    bases = [G.rand_record(rng, p_fg=0.7, p_bg=0.6) for _ in range(rng.randint(1, 3))]
    real = [G.build(r) for r in bases]
    warm = rng.random() < 0.85
    if warm:
        for sys_ in ([system] if rng.random() < 0.7 else [other, system]):
            c0 = make_console(sys_)
            c0.print(SegList([Segment("warm", st) for st in real]), crop=False)
    items, segs, routes = [], [], []
    for _ in range(rng.randint(1, 6)):
        i = rng.randrange(len(bases))
        r = rng.random()
        if r < 0.2:
            add = {"attrs": {}, "fg": None, "bg": ("default",), "link": None}
        elif r < 0.35:
            add = {"attrs": {}, "fg": ("default",), "bg": None, "link": None}
        elif r < 0.5:
            add = {"attrs": {}, "fg": None, "bg": None, "link": G.rand_url(rng)}
        elif r < 0.6:
            add = {"attrs": {}, "fg": None, "bg": ("default",), "link": G.rand_url(rng)}
        elif r < 0.7:
            add = {"attrs": {rng.choice(G.ATTRS): rng.random() < 0.6}, "fg": None, "bg": None, "link": None}
        elif r < 0.8:
            add = {"attrs": {}, "fg": None, "bg": None, "link": None}
        else:
            add = G.rand_record(rng)
        right = G.build(add)
        route = rng.choice(["a+b", "a+b", "combine", "chain", "b+a", "copy+b"])
        if route == "a+b":
            st, rec = real[i] + right, TV.fold_records([bases[i], add])
        elif route == "combine":
            st, rec = Style.combine([real[i], right]), TV.fold_records([bases[i], add])
        elif route == "chain":
            st, rec = Style.chain(real[i], right), TV.fold_records([bases[i], add])
        elif route == "b+a":
            st, rec = right + real[i], TV.fold_records([add, bases[i]])
        else:
            st, rec = real[i].copy() + right, TV.fold_records([bases[i], add])
        text = S.free_string(rng, rng.choice([1, 3, 8]), w, space=0.15, newline=0.0) or "x"
        items.append(("text", text, rec))
        segs.append(Segment(text, st))
        routes.append(route)
    for sys_ in (system, other):
        cfg = (sys_, False, True, False)
        console = make_console(sys_)
        console.print(SegList(segs), crop=False)
        stream = console.file.getvalue()
        ctx.count("mon.derived_style")
        wit = {"bases": [G.definition(b) for b in bases], "bases_rendered_before": warm, "routes": routes,
               "segments": _items_json(items), "colour_system": sys_, "stream": stream}
        if not check_stream(ctx, stream, items, cfg, wit, ":style-derived-from-a-rendered-style"):
            break
    ctx.case_done(("derived", repr(_items_json(items)), system, other, warm), warm,
                  {"bases": [G.definition(b) for b in bases], "routes": routes, "systems": [system, other]})


def wl_exhaustive(ctx):
    """Each attribute x {True, False} x each system; every pair of attributes; each colour kind as fg/bg."""
    cases = []
    for a in G.ATTRS:
        for v in (True, False):
            cases.append({"attrs": {a: v}, "fg": None, "bg": None, "link": None})
    for i, a in enumerate(G.ATTRS):
        for b in G.ATTRS[i + 1:]:
            cases.append({"attrs": {a: True, b: True}, "fg": None, "bg": None, "link": None})
            cases.append({"attrs": {a: True, b: False}, "fg": None, "bg": None, "link": None})
    kinds = [("default",), ("named", "red", 1), ("named", "bright_blue", 12), ("named", "grey50", 244),
             ("num", 0), ("num", 7), ("num", 8), ("num", 15), ("num", 16), ("num", 255),
             ("hex", 255, 0, 0), ("hex", 1, 2, 3), ("rgb", 128, 128, 128), ("rgb", 0, 0, 0)]
    for k in kinds:
        cases.append({"attrs": {}, "fg": k, "bg": None, "link": None})
        cases.append({"attrs": {}, "fg": None, "bg": k, "link": None})
        cases.append({"attrs": {"bold": True}, "fg": k, "bg": kinds[(kinds.index(k) + 3) % len(kinds)],
                      "link": "https://example.org/a?b=c"})
    n = 0
    for idx, rec in enumerate(cases):
        if idx % ctx.nshards != ctx.shard:
            continue
        for system in SYSTEMS:
            for no_color in (False, True):
                for terminal in (True, False):
                    for legacy in (False, True):
                        cfg = (system, no_color, terminal, legacy)
                        items = [("text", "a", None), ("text", "Xy", rec), ("text", "b", None)]
                        console = make_console(*cfg)
                        console.print(SegList(real_segments(items)), crop=False)
                        stream = console.file.getvalue()
                        ctx.count("mon.exhaustive_attr")
                        wit = {"segments": _items_json(items), "color_system": system, "no_color": no_color,
                               "is_terminal": terminal, "legacy_windows": legacy, "stream": stream}
                        check_stream(ctx, stream, items, cfg, wit)
                        n += 1
        ctx.case_done(("ex", G.definition(rec)), True, {"style": G.definition(rec)})
    ctx.evaluations += n
    ctx.mark_exhaustive("attr-colour-kind-x-config", n)


def workloads(tier):
    big = tier == "thorough"
    return [WL("exhaustive", wl_exhaustive, kind="custom"),
            WL("segments", wl_segments, 1000000 if big else 120000),
            WL("printed_text", wl_text, 300000 if big else 40000),
            WL("shared_style", wl_shared_style, 200000 if big else 20000),
            WL("derived_style", wl_derived_style, 200000 if big else 20000),
            WL("detected_terminal", wl_detected, 200000 if big else 20000)]


LEVEL_TEXT = ("Prints generated styled segment lists and Texts through real Console objects in every colour-system "
              "/ NO_COLOR / terminal / legacy-Windows configuration and decodes the bytes written to Console.file "
              "with an SGR/OSC-8 model written from the standards; characters, attributes, colours (after "
              "documented down-conversion), links, leak-freedom and the three 'contains no ...' clauses are "
              "compared per character.")
LEVEL_NOTE = "Trusted: rv/model/sgr.py (150 lines, self-tested on literal strings from the repo's tests); Color.downgrade (C18)."
TECHNIQUE = "runtime monitoring: recorded file output decoded by an independent SGR/OSC-8 terminal model and compared with generator-side style expectations"
