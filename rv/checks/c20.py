"""C20 - named styles resolve through a well-behaved theme stack."""
import io

from rv.core.runner import WL
from rv.gen import styles as G

ID = "C20"
LEVEL = "exploration"
RULE = ("random histories (<=14 steps) of push_theme(inherit=T/F), pop_theme (incl. popping the base), nested "
        "use_theme(theme, inherit=T/F) blocks left normally and by exception, over themes built with and without "
        "the default styles and overlapping names; after EVERY step every name of the union, some style "
        "definitions and junk names are looked up and compared with a list-of-dicts reference stack. Config "
        "round trip for themes whose styles come from the C06 style space (mixed-case names, links with '%'). "
        "Non-trivial: >=3 steps with >=1 non-inheriting push or exceptional exit; distinct by history.")
ASSUMPTIONS = ["rich.default_styles.DEFAULT_STYLES is data (what the default theme defines)",
               "style names are drawn from [A-Za-z0-9_.-]+ (what a config file key can hold)"]
REQUIRED = ["mon.config_read_inheriting_defaults", "mon.default_styles_untouched", "mon.console_style_by_name", "mon.context_reentered", "mon.lookup", "mon.pop_restores", "mon.base_pop", "mon.config_roundtrip", "mon.exception_exit", "mon.lookup_with_default", "mon.config_after_edit"]
MIN_NONTRIVIAL = {"quick": 2000, "thorough": 100000}

NAMES = ["info", "warn", "danger", "repr.number", "rule.line", "bar.complete", "a", "b.c", "red", "bold",
         "x-y_z"]
DEFS = [("bold red", {"attrs": {"bold": True}, "fg": ("standard", 1, None), "bg": None, "link": None}),
        ("on blue", {"attrs": {}, "fg": None, "bg": ("standard", 4, None), "link": None}),
        ("not italic #010203", {"attrs": {"italic": False}, "fg": ("truecolor", None, (1, 2, 3)), "bg": None,
                                "link": None})]
JUNK = ["nosuch!", "no such style", "on", "not", "link", "bold nosuch", "rgb(1,2)", "#12345"]


class Boom(Exception):
    pass


def rand_theme(rng):
    """(Theme, dict name -> expected view, inherit_defaults)"""
    from rich.theme import Theme
    inherit_defaults = rng.random() < 0.5
    styles = {}
    expect = {}
    for name in rng.sample(NAMES, rng.randint(0, 5)):
        rec = G.rand_record(rng, p_attr=0.1)
        styles[name] = G.build(rec) if rng.random() < 0.5 else G.definition(rec, rng)
        expect[name] = G.expected_view(rec)
    return Theme(styles, inherit=inherit_defaults), expect, inherit_defaults


def default_views():
    from rich.default_styles import DEFAULT_STYLES
    return {k: G.view(v) for k, v in DEFAULT_STYLES.items()}


_DEFAULTS = None


def theme_map(expect, inherit_defaults):
    global _DEFAULTS
    if _DEFAULTS is None:
        _DEFAULTS = default_views()
    m = dict(_DEFAULTS) if inherit_defaults else {}
    m.update(expect)
    return m


def check_console_style(ctx, console, log):
    """A console-wide style given by NAME is looked up when something is printed: the printed characters carry what
    the name resolves to NOW (get_style itself is compared with the reference stack by check_lookups)."""
    from rich.color import ColorSystem
    from rv.model import sgr
    name = getattr(console, "_rv_style_name", None)
    if name is None:
        return True
    f = console.file
    mark = len(f.getvalue())
    console.print("x", end="")
    got = sgr.decode(f.getvalue()[mark:])
    want = sgr.decode(console.get_style(name).render("x", color_system=ColorSystem.TRUECOLOR))
    ctx.count("mon.console_style_by_name")
    if [c[:4] for c in got.chars] != [c[:4] for c in want.chars] or [bool(c[4]) for c in got.chars] != [bool(c[4]) for c in want.chars]:
        ctx.violation("console-wide-style-name-resolved-differently-when-printing",
                      {"log": log, "console_style": name, "printed": repr(got.chars), "get_style_now": repr(want.chars)})
        return False
    return True


def check_lookups(ctx, console, model, log, universe):
    from rich.errors import MissingStyle
    if not check_console_style(ctx, console, log):
        return False
    top = model[-1]

    def expect(name):
        if name in top:
            return top[name], None
        d = dict(DEFS).get(name)
        if d is not None:
            return d, None
        # a theme name that is not defined now: is it a valid definition by itself?
        if name in ("red", "bold"):
            return {"attrs": {"bold": True} if name == "bold" else {},
                    "fg": ("standard", 1, None) if name == "red" else None, "bg": None, "link": None}, None
        return None, "MissingStyle"

    names = list(universe)
    for i, name in enumerate(names):
        ctx.count("mon.lookup")
        try:
            got = G.view(console.get_style(name))
            err = None
        except MissingStyle:
            got, err = None, "MissingStyle"
        want, werr = expect(name)
        if werr is not None and len(names) > 1:
            # the documented fallback: get_style(name, default=other) - `other` is a style NAME or definition and
            # resolves through the theme stack like any other lookup
            other = names[(i + 1) % len(names)]
            ctx.count("mon.lookup_with_default")
            try:
                gd, ed = G.view(console.get_style(name, default=other)), None
            except MissingStyle:
                gd, ed = None, "MissingStyle"
            except Exception as e:
                gd, ed = None, type(e).__name__
            if (gd, ed) != expect(other):
                ctx.violation("lookup-with-default-differs-from-reference-stack",
                              {"log": log, "name": name, "default": other, "got": gd or ed,
                               "want": expect(other)[0] or expect(other)[1], "depth": len(model)})
                return False
        if (got, err) != (want, werr):
            defined_in = [i for i, d in enumerate(model) if name in d]
            ctx.violation("lookup-differs-from-reference-stack",
                          {"log": log, "name": name, "got": got or err, "want": want or werr,
                           "defined_at_depths": defined_in, "depth": len(model)})
            return False
    return True


def wl_histories(ctx, rng, case_no):
    from rich.console import Console
    from rich.theme import ThemeStackError
    base_theme, base_expect, base_inh = rand_theme(rng)
    use_default_base = rng.random() < 0.5
    # a console-wide style given by name: "bold" / "red" are theme names that some generated themes redefine and
    # that are valid definitions by themselves (so the lookup can never fail)
    cstyle = rng.choice([None, None, "bold", "red"])
    ckw = dict(file=io.StringIO(), _environ={}, force_terminal=True, color_system="truecolor", legacy_windows=False,
               style=cstyle)
    if use_default_base:
        console = Console(**ckw)
        model = [theme_map({}, True)]
    else:
        console = Console(theme=base_theme, **ckw)
        model = [theme_map(base_expect, base_inh)]
    console._rv_style_name = cstyle
    log = [["console", "default-theme" if use_default_base else sorted(base_expect), base_inh]]
    universe = NAMES + [d for d, _ in DEFS] + JUNK + ["repr.str", "logging.level.info"]
    if not check_lookups(ctx, console, model, log, universe):
        ctx.case_done(("h", repr(log)), False)
        return
    interesting = 0
    steps = rng.randint(1, 14)
    deep = rng.random() < 0.2
    if deep:
        # a long run of (mostly inheriting) pushes: stacks 10-30 deep, then lookups and pops
        for k in range(rng.randint(8, 30)):
            theme, expect, inh_d = rand_theme(rng)
            inherit = rng.random() < 0.93
            log.append(["push", sorted(expect), {"defaults": inh_d, "inherit": inherit}])
            console.push_theme(theme, inherit=inherit)
            tm = theme_map(expect, inh_d)
            model.append({**model[-1], **tm} if inherit else dict(tm))
            interesting += 1
            if k % 3 == 2 or k >= 8:
                if not check_lookups(ctx, console, model, log, universe):
                    ctx.case_done(("h", repr(log)), False)
                    return
        ctx.hist("max_stack_depth", min(len(model) // 5 * 5, 30))

    def do_steps(n, depth):
        nonlocal interesting
        for _ in range(n):
            r = rng.random()
            if r < 0.35:
                theme, expect, inh_d = rand_theme(rng)
                inherit = rng.random() < 0.6
                log.append(["push", sorted(expect), {"defaults": inh_d, "inherit": inherit}])
                console.push_theme(theme, inherit=inherit)
                tm = theme_map(expect, inh_d)
                model.append({**model[-1], **tm} if inherit else dict(tm))
                interesting += not inherit
            elif r < 0.6:
                if len(model) > depth:
                    before = model[-2]
                    log.append(["pop"])
                    console.pop_theme()
                    model.pop()
                    ctx.count("mon.pop_restores")
                elif len(model) == 1:
                    log.append(["pop-base"])
                    ctx.count("mon.base_pop")
                    try:
                        console.pop_theme()
                    except ThemeStackError:
                        pass
                    else:
                        ctx.violation("base-theme-popped", {"log": log})
                        return False
                else:
                    continue
            elif r < 0.9 and depth < 4:
                theme, expect, inh_d = rand_theme(rng)
                inherit = rng.random() < 0.5
                boom = rng.random() < 0.4
                log.append(["use_theme", sorted(expect), {"defaults": inh_d, "inherit": inherit, "raises": boom}])
                saved = [dict(d) for d in model]
                tm = theme_map(expect, inh_d)
                # the context object may be kept by the program and entered again: one after the other, or
                # nested inside itself (each entry pushes, each exit pops)
                block = console.use_theme(theme, inherit=inherit)
                reenter = rng.choice([None, None, None, "nested", "again"])
                log[-1][2]["context_object"] = reenter or "fresh"
                try:
                    with block:
                        model.append({**model[-1], **tm} if inherit else dict(tm))
                        interesting += not inherit
                        if not check_lookups(ctx, console, model, log + [["inside-block"]], universe):
                            return False
                        if not do_steps(rng.randint(0, 3), len(model)):
                            return False
                        # leave the block with exactly the block's own entry on top
                        while len(model) > len(saved) + 1:
                            console.pop_theme()
                            model.pop()
                        if reenter == "nested":
                            ctx.count("mon.context_reentered")
                            before_inner = [dict(d) for d in model]
                            with block:
                                model.append({**model[-1], **tm} if inherit else dict(tm))
                                if not check_lookups(ctx, console, model, log + [["inside-same-context-again"]], universe):
                                    return False
                            model[:] = before_inner
                            if not check_lookups(ctx, console, model, log + [["after-inner-exit"]], universe):
                                return False
                        if boom:
                            interesting += 1
                            ctx.count("mon.exception_exit")
                            raise Boom()
                except Boom:
                    pass
                model[:] = saved
                log.append(["block-exit"])
                if reenter == "again":
                    ctx.count("mon.context_reentered")
                    if not check_lookups(ctx, console, model, log, universe):
                        return False
                    with block:
                        model.append({**model[-1], **tm} if inherit else dict(tm))
                        if not check_lookups(ctx, console, model, log + [["inside-same-context-second-time"]], universe):
                            return False
                    model[:] = saved
                    log.append(["block-exit-second-time"])
                # the stack is exactly as deep as before the block: a further pop must behave accordingly
                if len(model) == 1:
                    ctx.count("mon.base_pop")
                    try:
                        console.pop_theme()
                    except ThemeStackError:
                        pass
                    else:
                        ctx.violation("base-theme-popped", {"log": log + [["pop-after-block"]]})
                        return False
            else:
                continue
            if not check_lookups(ctx, console, model, log, universe):
                return False
        return True

    do_steps(steps, 1)
    ctx.hist("history_len", len(log))
    ctx.case_done(("h", repr(log)), len(log) >= 4 and interesting >= 1, {"log": log})


def wl_config(ctx, rng, case_no):
    from rich.theme import Theme
    names = rng.sample(["info", "warn", "Foo", "BAR.baz", "repr.number", "x-y_z", "MixedCase", "a.b.c", "n1"],
                       rng.randint(1, 6))
    styles = {}
    expect = {}
    for name in names:
        rec = G.rand_record(rng, p_link=0.3)
        if rec["link"] and rng.random() < 0.5:
            rec["link"] = rec["link"] + "%20x%"
        styles[name] = G.build(rec)
        expect[name] = G.expected_view(rec)
    inherit = rng.random() < 0.3
    theme = Theme(styles, inherit=inherit)
    first = _config_roundtrip(ctx, rng, theme, names, expect, inherit, [])
    if first is None:
        return
    wit, text = first
    if rng.random() < 0.3:
        # the theme's `styles` mapping is public: a program that edits it after having looked at the config text
        # (to save it, to show it) gets the text of the EDITED theme the next time it asks
        ctx.count("mon.config_after_edit")
        edits = []
        for _ in range(rng.randint(1, 3)):
            kind = rng.choice(["replace", "add", "delete"])
            if kind == "delete" and len(theme.styles) > 1 and names:
                n = rng.choice(names)
                if n in theme.styles:
                    del theme.styles[n]
                    expect.pop(n, None)
                    edits.append(["delete", n])
                continue
            n = rng.choice(names) if kind == "replace" else rng.choice(["added", "Added.Two", "z9"])
            rec = G.rand_record(rng, p_link=0.3)
            theme.styles[n] = G.build(rec)
            expect[n] = G.expected_view(rec)
            edits.append([kind, n])
        names2 = [n for n in expect]
        second = _config_roundtrip(ctx, rng, theme, names2, expect, inherit, ["after-editing-styles"], edits=edits)
        if second is None:
            return
    ctx.case_done(("cfg", repr(names), text[:400]), True, wit)


def _config_roundtrip(ctx, rng, theme, names, expect, inherit, feat0, edits=None):
    """Theme.config -> Theme.from_file / Theme.read gives a theme with equal styles.  Returns (witness, text), or None
    when reading back raised (the case is accounted for then)."""
    from rich.theme import Theme
    text = theme.config
    ctx.count("mon.config_roundtrip")
    wit = {"names": names, "config": text if len(text) < 1500 else text[:1500] + "...", "inherit_defaults": inherit}
    if edits:
        wit["styles_edited_after_first_config_read"] = edits
    feat = list(feat0)
    if any(n != n.lower() for n in names):
        feat.append("mixed-case-name")
    if "%" in text:
        feat.append("percent-in-value")
    via_path = text.isascii() and rng.random() < 0.3
    # the reader's own `inherit` (default True: the defaults come along) rotates; what is read back is then the theme's
    # styles over the defaults
    import random as _random
    read_inherit = _random.Random("ri/" + text[:40] + str(len(text))).random() < 0.4
    try:
        if via_path:
            # the documented way to load a theme: Theme.read(path)
            import os
            import tempfile
            fd, path = tempfile.mkstemp(suffix=".ini", prefix="rvc20_")
            try:
                with os.fdopen(fd, "w", encoding="utf-8") as f:
                    f.write(text)
                back = Theme.read(path, inherit=read_inherit)
            finally:
                os.unlink(path)
            ctx.count("mon.config_read_from_path")
        else:
            back = Theme.from_file(io.StringIO(text), inherit=read_inherit)
    except Exception as e:
        ctx.violation("config-does-not-read-back:%s:%s" % (type(e).__name__, "+".join(feat) or "plain"),
                      dict(wit, error=repr(e)))
        ctx.case_done(("cfg", repr(wit)), True, wit)
        return None
    got = {k: G.view(v) for k, v in back.styles.items()}
    want = {k: G.view(v) for k, v in theme.styles.items()}
    if read_inherit:
        ctx.count("mon.config_read_inheriting_defaults")
        feat.append("read-with-inherit")
        want = {**theme_map({}, True), **want}
    # reading a theme (or building one) never changes the library's default styles
    ctx.count("mon.default_styles_untouched")
    now = default_views()
    if now != theme_map({}, True):
        changed = sorted(k for k in set(now) | set(_DEFAULTS) if now.get(k) != _DEFAULTS.get(k))
        ctx.violation("default-styles-changed-by-reading-a-theme", dict(wit, names=changed[:8]))
        return None
    if got != want:
        missing = sorted(set(want) - set(got))
        extra = sorted(set(got) - set(want))
        kind = "names-changed" if (missing or extra) else "styles-changed"
        ctx.violation("config-roundtrip-%s:%s" % (kind, "+".join(feat) or "plain"),
                      dict(wit, missing=missing[:5], extra=extra[:5]))
    for n in names:
        if got.get(n) is not None and got[n] != expect[n]:
            ctx.violation("config-roundtrip-style-wrong" + (":" + "+".join(feat0) if feat0 else ""),
                          dict(wit, name=n, got=got[n], want=expect[n]))
    return wit, text


def workloads(tier):
    big = tier == "thorough"
    return [WL("histories", wl_histories, 400000 if big else 20000),
            WL("config", wl_config, 200000 if big else 10000)]


LEVEL_TEXT = ("Runs real Console.push_theme / pop_theme / use_theme / get_style through seeded random histories "
              "(including exceptional block exits and attempts to pop the base theme) next to a list-of-dicts "
              "reference stack, comparing every lookup after every step; Theme.config -> Theme.from_file round "
              "trips for generated themes.")
LEVEL_NOTE = "Trusted: DEFAULT_STYLES as data; the 20-line reference stack in this check."
TECHNIQUE = "runtime monitoring: reference-model monitor (stack of dicts) driven with the same push/pop history, all lookups compared after every step"
