"""C04 - markup styles exactly the tagged regions, and escape() neutralises any text."""
import itertools
import re

from rv.core.runner import WL
from rv.monitor.poison import poison_text
from rv.gen import styles as G
from rv.model import markupgen as MG
from rv.model import textview as TV

ID = "C04"
LEVEL = "exploration"
SIGMA = "[]\\/=#ab1 \n:"
RULE = ("(1) exhaustive: every string over the 12-symbol alphabet '[ ] \\ / = # a b 1 space newline :' up to "
        "length 5 (quick) / 6 (thorough): render(escape(s)) must give s back unstyled, alone and - when s "
        "satisfies the embedding proviso - between complete markup; (2) random longer strings over a wider "
        "alphabet; (3) documents generated from random trees/overlaps of tags with escaped leaves, each "
        "emitted together with its expected plain text, per-character open-tag list and validity. "
        "Non-trivial: the string contains '[' or '\\' (escape slice) / the document has >=2 tags and >=1 "
        "styled character; distinct by string / document. (4) every string over '[ ] \\ / a b space = newline' up to "
        "length 6 (quick) / 7 (thorough), and random longer strings spliced with odd tag spellings, interpreted by the "
        "real renderer and by a hand-written reference interpreter (rv/model/markupref.py): same error status, same "
        "plain text, same tagged regions in opening order.")
ASSUMPTIONS = ["emoji replacement is a separate documented feature and is switched off for the verbatim claims; "
               "a second pass with emoji on runs on strings without a :code: match",
               "effective style read back from Text.render segments; attributes compared by on/off, colours by value"]
REQUIRED = ["mon.escape_alone", "mon.escape_embedded", "mon.doc_plain", "mon.doc_styles", "mon.doc_error",
            "mon.reference_interpreter"]
MIN_NONTRIVIAL = {"quick": 20000, "thorough": 200000}
EXHAUSTIVE = {"quick": False, "thorough": False}

_console = None
_RED = None
_BOLD = None


def _setup():
    global _console, _RED, _BOLD
    if _console is None:
        _console = TV.make_console()
        _BOLD = (frozenset(["bold"]), None, None, None)
        _RED = (frozenset(), ("standard", 1, None), None, None)
    return _console


def check_escape(ctx, s, emoji=False):
    from rich import markup
    from rich.errors import MarkupError
    console = _setup()
    esc = markup.escape(s)
    ctx.count("mon.escape_alone")
    try:
        t = markup.render(esc, emoji=emoji)
    except MarkupError as e:
        ctx.violation("escape-alone-raises-MarkupError", {"s": s, "escaped": esc, "error": str(e)})
        return
    if t.plain != s:
        ctx.violation("escape-alone-not-verbatim", {"s": s, "escaped": esc, "plain": t.plain})
    elif len(t) != len(s):
        ctx.violation("escape-alone-wrong-len", {"s": s, "len": len(t)})
    elif any(v != TV.NULL_VIS for _, v in TV.char_styles(t, console)):
        ctx.violation("escape-alone-styled", {"s": s, "escaped": esc, "spans": repr(t.spans)})
    if MG.proviso_ok(s):
        doc = "[bold]" + esc + "[/bold][red]x[/red]"
        ctx.count("mon.escape_embedded")
        try:
            t = markup.render(doc, emoji=emoji)
        except MarkupError as e:
            ctx.violation("escape-embedded-raises-MarkupError", {"s": s, "doc": doc, "error": str(e)})
            return
        if t.plain != s + "x":
            ctx.violation("escape-embedded-not-verbatim", {"s": s, "doc": doc, "plain": t.plain})
            return
        cs = TV.char_styles(t, console)
        want = [(c, _BOLD) for c in s] + [("x", _RED)]
        if cs != want:
            ctx.violation("escape-embedded-wrong-styles", {"s": s, "doc": doc, "spans": repr(t.spans)})


def wl_exhaustive(ctx):
    maxlen = 6 if ctx.tier == "thorough" else 5
    n = 0
    k = 0
    for length in range(0, maxlen + 1):
        for tup in itertools.product(SIGMA, repeat=length):
            k += 1
            if k % ctx.nshards != ctx.shard:
                continue
            s = "".join(tup)
            check_escape(ctx, s)
            n += 1
            if "[" in s or "\\" in s:
                ctx.nontrivial.add(k)
                if n % 50021 == 1:
                    ctx.samples.setdefault("exhaustive", []).append({"s": s})
    ctx.evaluations += n
    ctx.mark_exhaustive("sigma<=%d" % maxlen, n)
    ctx.hist("exhaustive_maxlen", maxlen, n)


_RE_EMOJI = re.compile(r":(\S*?):")


def wl_random_escape(ctx, rng, case_no):
    alphabet = MG.LEAF_ALPHABET + "[[]]\\\\" + "cdefg/#=_-.,'\"(){}<>*&^%$@!~`|;?+09\t"
    n = rng.randint(1, 40)
    s = "".join(rng.choice(alphabet) for _ in range(n))
    check_escape(ctx, s)
    if not _RE_EMOJI.search(s):
        ctx.count("mon.escape_emoji_on")
        check_escape(ctx, s, emoji=True)
    ctx.case_done(("re", s), "[" in s or "\\" in s, {"s": s})


def wl_documents(ctx, rng, case_no):
    from rich import markup
    from rich.errors import MarkupError
    from rich.text import Text
    console = _setup()
    # (long documents: dozens of tags, many of them open at once - whatever keeps the open tags must keep their ORDER)
    g = MG.generate(rng, markup.escape, max_events=rng.choice([4, 8, 14, 14, 14, 40, 120]))
    doc = g["doc"]
    base = None
    if rng.random() < 0.3:
        base = G.rand_record(rng, p_attr=0.1, p_link=0.0)
    wit = {"doc": doc, "expected_plain": g["plain"], "invalid": g["invalid"]}
    ctx.count("mon.doc_error")
    if rng.random() < 0.2:
        # an earlier render of the same document whose result the caller then edits: the render below is judged
        # by the same oracle and must not notice
        try:
            poison_text(Text.from_markup(doc, emoji=False))
            poison_text(markup.render(doc, emoji=False))
            ctx.count("mon.result_poisoning")
        except MarkupError:
            pass
    try:
        if base is not None:
            t = Text.from_markup(doc, style=G.build(base), emoji=False)
        else:
            t = Text.from_markup(doc, emoji=False)
    except MarkupError as e:
        if not g["invalid"]:
            ctx.violation("MarkupError-on-valid-document", dict(wit, error=str(e)))
        ctx.hist("doc_outcome", "MarkupError(expected)" if g["invalid"] else "MarkupError(unexpected)")
        ctx.case_done(("doc", doc), g["invalid"] and len(doc) > 6, wit)
        return
    if g["invalid"]:
        ctx.violation("no-MarkupError-on-close-without-open", dict(wit, plain=t.plain))
        return
    ctx.hist("doc_outcome", "rendered")
    ctx.count("mon.doc_plain")
    if t.plain != g["plain"]:
        ctx.violation("document-plain-differs", dict(wit, plain=t.plain))
        return
    if len(t) != len(g["plain"]):
        ctx.violation("document-len-differs", dict(wit, len=len(t)))
    cs = TV.char_styles(t, console)
    ctx.count("mon.doc_styles")
    styled = 0
    for idx, ((ch, vis), layer) in enumerate(zip(cs, g["layers"])):
        recs = ([base] if base is not None else []) + [MG.VOCAB[i][2] for i in layer]
        want = TV.vis_of_record(TV.fold_records(recs))
        styled += bool(layer)
        if vis != want:
            # classify: do tags opened at the same offset exist here?
            ctx.violation("document-char-style-differs", dict(
                wit, index=idx, char=ch, got=TV.vis_json(vis), want=TV.vis_json(want),
                open_tags=[MG.VOCAB[i][0][0] for i in layer], spans=repr(t.spans)))
            break
    if len(cs) != len(g["layers"]):
        ctx.violation("document-plain-differs", dict(wit, got_chars=len(cs)))
    k = g["kinds"]
    for name, v in k.items():
        ctx.hist("doc_events", name, v)
    ntags = k["open"]
    ctx.case_done(("doc", doc, repr(base)), ntags >= 2 and styled >= 1, wit)


TAG_SIGMA = "[]\\/ab =\n"


def check_against_reference(ctx, s):
    from rich import markup
    from rich.errors import MarkupError
    from rich.style import Style
    from rv.model import markupref
    ctx.count("mon.reference_interpreter")
    want = markupref.interpret(s, Style.normalize)
    try:
        t = markup.render(s, emoji=False)
        got = ("ok", t.plain, [(sp.start, sp.end, str(sp.style)) for sp in t.spans])
    except MarkupError:
        got = ("error",)
    if got[0] != want[0]:
        ctx.violation("MarkupError-raised-iff-close-without-open-violated:" +
                      ("raised-but-should-not" if got[0] == "error" else "not-raised-but-should"),
                      {"markup": s, "got": got, "reference": want})
    elif got[0] == "ok" and got[1] != want[1]:
        ctx.violation("tags-removed-text-differs-from-reference", {"markup": s, "got": got, "reference": want})
    elif got[0] == "ok" and got[2] != want[2]:
        ctx.violation("tagged-regions-differ-from-reference", {"markup": s, "got": got, "reference": want})
    return got[0], want


def wl_reference_exhaustive(ctx):
    """Every string over '[ ] \\ / a b space = newline' up to length 6 (quick) / 7 (thorough), interpreted by the
    real renderer and by the hand-written reference interpreter: same error status, same plain text, same tagged
    regions in opening order."""
    maxlen = 7 if ctx.tier == "thorough" else 6
    k = 0
    n = 0
    for length in range(0, maxlen + 1):
        for tup in itertools.product(TAG_SIGMA, repeat=length):
            k += 1
            if k % ctx.nshards != ctx.shard:
                continue
            s = "".join(tup)
            if "[" not in s:
                continue
            status, want = check_against_reference(ctx, s)
            n += 1
            if status == "error" or (want[0] == "ok" and want[2]):
                ctx.nontrivial.add((1 << 40) + k)
                if n % 30011 == 1:
                    ctx.samples.setdefault("reference_exhaustive", []).append({"markup": s, "reference": want})
    ctx.evaluations += n
    ctx.mark_exhaustive("tag-sigma<=%d" % maxlen, n)


def wl_reference_random(ctx, rng, case_no):
    alphabet = "[[]]//\\ab =\nlinkredbold#1 "
    s = "".join(rng.choice(alphabet) for _ in range(rng.randint(1, 28)))
    if rng.random() < 0.5:
        # splice in real tag words so that names normalise ("b" -> "bold") and parameters occur
        words = ["[b]", "[/b]", "[bold]", "[/bold]", "[/]", "[red]", "[/red]", "[link=a]", "[/link]", "[//]", "[/ /]",
                 "[a/]", "[/a/]", "[ /a]", "[/ a ]", "[a=b]", "[/a=b]", "\\[b]", "\\\\[b]", "[not bold]", "[/not bold]"]
        for _ in range(rng.randint(1, 4)):
            pos = rng.randint(0, len(s))
            s = s[:pos] + rng.choice(words) + s[pos:]
    status, want = check_against_reference(ctx, s)
    ctx.case_done(("ref", s), "[" in s and (status == "error" or bool(want[0] == "ok" and want[2])), {"markup": s})


def workloads(tier):
    big = tier == "thorough"
    return [WL("exhaustive", wl_exhaustive, kind="custom"),
            WL("reference_exhaustive", wl_reference_exhaustive, kind="custom"),
            WL("reference_random", wl_reference_random, 600000 if big else 40000),
            WL("random_escape", wl_random_escape, 600000 if big else 40000),
            WL("documents", wl_documents, 1500000 if big else 100000)]


LEVEL_TEXT = ("Runs the real rich.markup.render / escape / Text.from_markup. The escape() guarantee is checked "
              "exhaustively over all strings of a 12-symbol syntax-significant alphabet up to length 5 (quick, "
              "271k strings) or 6 (thorough, 3.3M) - alone and embedded between complete markup - and on random "
              "longer strings; tag semantics are checked on generated documents whose expected styling comes "
              "from the generator, not from a parser.")
LEVEL_NOTE = "Trusted: the generator's own bookkeeping of open tags (60 lines); Text.render for reading styles back (decided by C05)."
TECHNIQUE = "runtime monitoring: generated documents with built-in expectations + bounded-exhaustive escape() round trip, oracle on plain text, per-character style and exception type"
