"""C17 - Syntax and tracebacks show the source line for line under the right numbers."""
import linecache
import os
import re
import shutil
import sys
import tempfile
import textwrap

from rv.core.runner import WL
from rv.gen import strings as S
from rv.model import cellref, consoles

ID = "C17"
LEVEL = "exploration"
RULE = ("random sources (leading / trailing / interior blank lines, tabs, wide characters, with and without final "
        "newline, empty) x lexers {python, json, html, text, unknown} x line_numbers x start_line x line_range (inside, "
        "straddling, beyond) x highlight_lines x word_wrap x code_width x indent_guides x themes x widths, rendered by "
        "the real Syntax and compared line by line with the source under the parsed gutter numbers; generated failing "
        "modules (varying leading blank lines, nesting, length) rendered through Traceback and compared with linecache. "
        "Non-trivial: >=3 source lines and (a blank first line, or a line range, or wrapping happened); distinct by "
        "(source, options).")
ASSUMPTIONS = ["trailing whitespace of a displayed line is not compared (it is invisible, and padded backgrounds add it)",
               "without word_wrap a line wider than the code width is shown cropped (a prefix); with word_wrap the "
               "non-blank characters of the line are compared (wrapping re-flows whitespace)",
               "blank lines at the very end are not compared (the statement excludes them)",
               "Pygments lexers return the characters they are given (trusted third-party component)"]
REQUIRED = ["mon.syntax_word_at_the_edge_of_the_code_column", "mon.syntax_object_rendered_again", "mon.from_path", "mon.syntax_lines", "mon.syntax_numbers", "mon.syntax_range", "mon.traceback_frames"]
MIN_NONTRIVIAL = {"quick": 1500, "thorough": 80000}

PY_LINES = ["import os", "def f(x):", "    return x + 1", "class A:", "    pass", "x = [1, 2, 3]", "# comment 漢字",
            "s = 'string with spaces'", "    if x:", "        y = {'a': 1}", "\tindented_with_tab = 1", "print(x)",
            "", "", "    ", "@decorator", "value = f(2) * 3  # trailing", "else:", "    '''doc'''", "lambda: 0"]
JSON_LINES = ['{', '  "a": 1,', '  "b": [1, 2, 3],', '  "c": {"d": null},', '}', '', '  "漢": "字"', '[', ']']
HTML_LINES = ['<html>', '  <body class="x">', '    <p>text &amp; more</p>', '  </body>', '</html>', '', '<!-- c -->']

_GUTTER = re.compile(r"^(❱ |> |  )( *\d+) (.*)$", re.S)


def gen_source(rng):
    lexer = rng.choice(["python", "python", "json", "html", "text", "nosuchlexer"])
    pool = {"python": PY_LINES, "json": JSON_LINES, "html": HTML_LINES}.get(lexer)
    n = rng.choice([0, 1, 2, 3, 5, 8, 12, 25])
    lines = []
    for _ in range(n):
        if pool and rng.random() < 0.8:
            lines.append(rng.choice(pool))
        else:
            w = S.pick_weights(rng)
            S.drop_zero(w)
            lines.append(S.free_string(rng, rng.choice([0, 5, 20, 60]), w, space=0.2, tab=0.03))
    if rng.random() < 0.15 and lines:
        # leading whitespace that is not U+0020 (ideographic space, no-break space, en quad): still characters
        # of the code, whatever indentation guides do
        i = rng.randrange(len(lines))
        lines[i] = rng.choice(["\u3000", "\xa0", "\u2000", " \u3000 ", "\xa0\xa0"]) + lines[i].lstrip()
    lead = rng.choice([0, 0, 0, 1, 2, 4])
    trail = rng.choice([0, 0, 1, 3])
    lines = [""] * lead + lines + [""] * trail
    code = "\n".join(lines)
    if rng.random() < 0.7 and code:
        code += "\n"
    return lexer, code


def expected_lines(code, tab_size, dedent):
    if dedent:
        code = textwrap.dedent(code)
    return code.expandtabs(tab_size).split("\n")


def strip_trailing_blank(lines):
    lines = list(lines)
    while lines and not lines[-1].strip():
        lines.pop()
    return lines


def render_plain(console, renderable):
    out = []
    cur = []
    for seg in console.render(renderable, console.options):
        if seg.is_control:
            continue
        parts = seg.text.split("\n")
        for i, p in enumerate(parts):
            if i:
                out.append("".join(cur))
                cur = []
            cur.append(p)
    if "".join(cur):
        out.append("".join(cur))
    return out


def unguide(line):
    """Map indent-guide glyphs inside the leading whitespace back to spaces."""
    i = 0
    chars = list(line)
    while i < len(chars) and chars[i] in " │":
        chars[i] = " "
        i += 1
    return "".join(chars)


def line_matches(shown, source, word_wrap, code_width):
    """shown: list of displayed pieces of one source line (first + continuation lines)."""
    if word_wrap:
        return "".join("".join(p.split()) for p in shown) == "".join(source.split())
    s = shown[0].rstrip()
    src = source.rstrip()
    if s == src:
        return True
    # cropped to the code width: a prefix (the last cell may be a space standing for half a wide char)
    if cellref.width(src) > code_width:
        return src.startswith(s) or src.startswith(s[:-1]) or src.startswith(shown[0][:len(s)])
    return False


def wl_syntax(ctx, rng, case_no):
    from rich.syntax import Syntax
    lexer, code = gen_source(rng)
    opts = {"line_numbers": rng.random() < 0.75,
            "start_line": rng.choice([1, 1, 1, 2, 10, 99, 1000]),
            "line_range": None, "highlight_lines": None,
            "word_wrap": rng.random() < 0.3,
            "code_width": rng.choice([None, None, 20, 60, 100]),
            "indent_guides": rng.random() < 0.3,
            "tab_size": rng.choice([4, 4, 2, 8]),
            "theme": rng.choice(["monokai", "ansi_dark", "ansi_light", "default", "vim"]),
            "dedent": rng.random() < 0.1,
            "background_color": rng.choice([None, None, "red", "default"])}
    nsrc = len(code.split("\n"))
    if rng.random() < 0.5:
        a = rng.choice([1, 1, 2, rng.randint(1, max(1, nsrc)), nsrc, nsrc + 1, nsrc + 5, -2, 0])
        b = rng.choice([a, a + 1, a + 3, nsrc, nsrc + 4, rng.randint(max(a, 1), max(a, 1) + 10)])
        opts["line_range"] = (a, max(a, b, 1))   # the start may lie before line 1 (tracebacks do that), the end not
    if rng.random() < 0.4:
        opts["highlight_lines"] = {rng.randint(1, nsrc + 2) for _ in range(rng.randint(1, 3))}
    width = rng.choice([30, 60, 80, 120, 200])
    if opts["word_wrap"] and lexer in ("python", "text", "nosuchlexer") and case_no % 3 == 0:
        # lines built around the edge of the code column: a word that cannot fit on any row, starting exactly where the
        # row is full, one cell before, one after ... (the gutter's width is not known here, so a range of offsets)
        import random as _random
        r2 = _random.Random("edge/%d" % case_no)
        cw = opts["code_width"] or (width - (len(str(opts["start_line"] + nsrc + 8)) + 2 if opts["line_numbers"] else 0))
        extra = []
        for L in range(max(2, cw - 4), cw + 2):
            lead = r2.choice(["v", "w"]) * (L - 1) + " "
            token = r2.choice(["'" + "q" * (cw + r2.randint(1, 9)) + "'", "漢字" * (cw // 2 + 2), "z" * (2 * cw + 3)])
            extra.append(lead + token)
        code = code + ("" if code.endswith("\n") or not code else "\n") + "\n".join(extra) + "\n"
        nsrc = len(code.split("\n"))
        ctx.count("mon.syntax_word_at_the_edge_of_the_code_column")
    console = consoles.layout_console(width, legacy=rng.random() < 0.1, ascii_only=rng.random() < 0.1)
    wit = {"code": code, "lexer": lexer, "options": {k: (sorted(v) if isinstance(v, set) else v) for k, v in opts.items()},
           "width": width}
    feats = []
    if code.startswith("\n"):
        feats.append("leading-blank-lines")
    if opts["line_range"]:
        feats.append("line_range")
        if opts["line_range"][0] > nsrc:
            feats.append("range-starts-beyond-code")
    # construction route: from a string with a named lexer, or from a file whose extension picks the lexer
    route = "from_path" if rng.random() < 0.25 else "string"
    path = None
    if route == "from_path":
        import os
        import tempfile
        ext = {"python": rng.choice([".py", ".PY", ".python"]), "json": ".json", "html": rng.choice([".html", ".htm"]),
               "text": rng.choice([".txt", ""]), "nosuchlexer": rng.choice([".nosuchext", ".x-y"])}[lexer]
        fd, path = tempfile.mkstemp(suffix=ext, prefix="rvc17_")
        with os.fdopen(fd, "w", encoding="utf-8", newline="") as f:
            f.write(code)
        with open(path, "rt", encoding="utf-8") as f:
            code = f.read()          # what a text-mode read of that file yields (universal newlines)
        nsrc = len(code.split("\n"))
        wit["code"] = code
        wit["route"] = "from_path(%r)" % ext
        feats.append("from_path")
        ctx.count("mon.from_path")
    ftag = "+".join(feats) or "plain"
    try:
        if route == "from_path":
            try:
                syn = Syntax.from_path(path, **opts)
            finally:
                os.unlink(path)
        else:
            syn = Syntax(code, lexer, **opts)
        # one object is often drawn many times (a live display re-renders it on every refresh, a table holding it is
        # printed twice, it is measured before it is drawn): for a third of the cases the render that is judged is not
        # the first thing that happens to the object
        import random as _random
        r2 = _random.Random("again/%d/%s" % (case_no, code[:20]))
        prior = r2.choice([0, 0, 0, 0, 1, 1, 2, 3])
        for k in range(prior):
            if r2.random() < 0.3:
                from rich.measure import Measurement
                Measurement.get(console, syn, width)
            else:
                other = console if r2.random() < 0.5 else consoles.layout_console(r2.choice([30, 60, 80, 200]))
                render_plain(other, syn)
        if prior:
            feats.append("object-used-before")
            ftag = "+".join(feats)
            ctx.count("mon.syntax_object_rendered_again")
            wit["uses_before_this_render"] = prior
        shown = render_plain(console, syn)
    except Exception as e:
        from rv.core.runner import exc_mechanism
        ctx.violation("syntax-render-raises:%s:%s" % (exc_mechanism(e).split(":", 1)[1], ftag), dict(wit, error=repr(e)))
        ctx.case_done(("s", code, repr(wit["options"]), width), False)
        return
    wit["shown"] = shown[:60]
    src = expected_lines(code, opts["tab_size"], opts["dedent"])
    ctx.count("mon.syntax_lines")
    wrapped = False
    if not opts["line_numbers"] and opts["line_range"]:
        # the statement speaks about line ranges only "with line numbers shown": nothing is asserted
        # about the content here beyond "rendering does not raise"
        ctx.count("unasserted:line_range_without_numbers")
    elif not opts["line_numbers"]:
        # no gutter: the text is rendered whole
        cw = opts["code_width"] if opts["code_width"] is not None else width - 1
        if opts["word_wrap"]:
            got = "".join("".join(l.split()) for l in shown)
            want = "".join("".join(l.split()) for l in src)
            if got != want:
                ctx.violation("syntax-characters-differ:%s:%s" % (lexer_tag(lexer), ftag), wit)
        else:
            a, b = strip_trailing_blank(shown), strip_trailing_blank(src)
            if len(a) != len(b):
                ctx.violation("syntax-line-count-differs:%s:%s" % (lexer_tag(lexer), ftag),
                              dict(wit, got_lines=len(a), want_lines=len(b)))
            else:
                for i, (g, w_) in enumerate(zip(a, b)):
                    if not line_matches([g], w_, False, cw):
                        ctx.violation("syntax-line-differs:%s:%s" % (lexer_tag(lexer), ftag),
                                      dict(wit, index=i, got=g, want=w_))
                        break
    else:
        ncw = None
        groups = []      # [(number, marker, [pieces])]
        bad = False
        for line in shown:
            m = _GUTTER.match(line)
            if m and (ncw is None or len(m.group(1)) + len(m.group(2)) + 1 == ncw) and m.group(2).strip():
                if ncw is None:
                    ncw = len(m.group(1)) + len(m.group(2)) + 1
                groups.append((int(m.group(2)), m.group(1), [m.group(3)]))
            elif groups and ncw is not None and line[:ncw].strip() == "":
                groups[-1][2].append(line[ncw:])
                wrapped = True
            elif not line.strip():
                continue
            else:
                ctx.violation("syntax-gutter-unparseable:%s" % ftag, dict(wit, line=line))
                bad = True
                break
        if not bad:
            cw = opts["code_width"] if opts["code_width"] is not None else width - (ncw or 0)
            # which source lines are expected?
            if opts["line_range"]:
                a, b = opts["line_range"]
                lo = max(0, a - 1)
                sel = list(enumerate(src))[lo:max(b, 0)]
                ctx.count("mon.syntax_range")
            else:
                sel = list(enumerate(src))
            # blank lines at the very end of the SOURCE aside; a range that ends on a blank line in the middle of
            # the code selects that line like any other
            interior = bool(opts["line_range"]) and 0 < opts["line_range"][1] < len(strip_trailing_blank(src))
            got = list(groups)
            if not interior:
                while sel and not sel[-1][1].strip():
                    sel.pop()
                # (under indent_guides a line of white space shows guide glyphs: it is still a blank line of the source)
                def _blank(pieces):
                    return not "".join(unguide(p) if opts["indent_guides"] else p for p in pieces).strip()
                while got and _blank(got[-1][2]):
                    got.pop()
            else:
                ctx.count("mon.syntax_range_interior")
            ctx.count("mon.syntax_numbers")
            if len(got) != len(sel):
                ctx.violation("syntax-line-count-differs:%s:%s" % (lexer_tag(lexer), ftag),
                              dict(wit, got_lines=len(got), want_lines=len(sel)))
            else:
                for (num, marker, pieces), (idx, text) in zip(got, sel):
                    want_num = opts["start_line"] + idx
                    pieces2 = [unguide(p) for p in pieces] if opts["indent_guides"] else pieces
                    if num != want_num:
                        ctx.violation("syntax-line-number-wrong:%s:%s" % (lexer_tag(lexer), ftag),
                                      dict(wit, shown_number=num, want_number=want_num, line=text))
                        break
                    if not line_matches(pieces2, text, opts["word_wrap"], cw):
                        ctx.violation("syntax-line-differs:%s:%s" % (lexer_tag(lexer), ftag),
                                      dict(wit, number=num, got=pieces, want=text))
                        break
                    hl = opts["highlight_lines"] or set()
                    if (marker.strip() != "") != (num in hl):
                        ctx.violation("syntax-highlight-marker-wrong:%s" % ftag, dict(wit, number=num, marker=marker))
                        break
    ctx.hist("lexer", lexer)
    ctx.hist("features", ftag)
    ctx.case_done(("s", code, repr(wit["options"]), width),
                  nsrc >= 3 and (code.startswith("\n") or opts["line_range"] is not None or wrapped),
                  {k: wit[k] for k in ("code", "lexer", "options", "width")})


def lexer_tag(lexer):
    return "lexed" if lexer in ("python", "json", "html") else lexer


# --------------------------------------------------------------------------------------------
def gen_module(rng, index):
    """Source of a module with functions a -> b -> c raising at a chosen line; returns (source, info)."""
    lead = rng.choice([0, 0, 1, 2, 4, 7])
    lines = [""] * lead
    if rng.random() < 0.5:
        lines.append('"""module docstring 漢字"""')
    depth = rng.randint(1, 3)
    odd_breaks = rng.random() < 0.12
    names = ["f%d_%d" % (index, i) for i in range(depth)]
    raise_lines = {}
    for i in reversed(range(depth)):
        lines.append("")
        lines.append("def %s(x):" % names[i])
        for _ in range(rng.randint(0, 4)):
            stmt = rng.choice(["    y = x + 1", "    # comment", "", "    z = [x,\n         x]", "    pass"])
            lines.extend(stmt.split("\n"))
        if odd_breaks:
            # characters that str.splitlines() treats as line ends although neither Python nor Rich's own line
            # counting does: a form feed on a line of its own (a page break, legal between statements), LINE / PARAGRAPH
            # SEPARATOR, NEL and the information separators inside comments and string constants
            for _ in range(rng.randint(1, 6)):
                stmt = rng.choice(["\x0c", "    # part one\u2028part two", "    sep = 'a\u2029b'", "    nel = 'x\x85y'  # n\x85l",
                                   "    fs = '\x1c\x1d\x1e'", "\x0c"])
                lines.append(stmt)
        if i == depth - 1:
            lines.append(rng.choice(["    raise ValueError('boom %d' % x)", "    return 1 / (x - x)",
                                     "    return {}['missing' + str(x)]"]))
        elif rng.random() < 0.3:
            # the frame goes on executing after the exception passed through it (clean-up code): its failing line is
            # the call, not the last line it ran
            lines.append("    try:")
            lines.append("        return %s(x)  # call" % names[i + 1])
            raise_lines[names[i]] = len(lines)
            lines.append("    finally:")
            lines.append("        cleanup = x")
            lines.append("        cleanup += 1")
            continue
        else:
            lines.append("    return %s(x)  # call" % names[i + 1])
        raise_lines[names[i]] = len(lines)
        for _ in range(rng.randint(0, 3)):
            lines.append(rng.choice(["    # after", "", "    unreachable = 1"]))
    lines += [""] * rng.choice([0, 1, 3])
    tab_indented = rng.random() < 0.2
    if tab_indented:
        # a file indented with tabs (one tab per level): what is shown is the line with its tabs expanded
        def retab(l):
            n = 0
            while l.startswith("    ", 4 * n):
                n += 1
            return "\t" * n + l[4 * n:]
        lines = [retab(l) for l in lines]
    src = "\n".join(lines) + ("\n" if rng.random() < 0.8 else "")
    return src, {"entry": names[0], "raise_lines": raise_lines, "odd_breaks": odd_breaks, "tab_indented": tab_indented}


_tmpdir = None


def wl_traceback(ctx, rng, case_no):
    global _tmpdir
    from rich.traceback import Traceback
    import importlib.util
    if _tmpdir is None:
        _tmpdir = tempfile.mkdtemp(prefix="rv-c17-")
        import atexit
        atexit.register(shutil.rmtree, _tmpdir, True)
    src, info = gen_module(rng, case_no)
    # a handful of paths are used over and over with new content (a program that is edited and re-run, a file
    # restored from a backup): half of the time the new file's mtime is made OLDER than any earlier version's
    # the source file of a frame may have any name: a script without a suffix, a plug-in suffix no lexer knows
    suffix = rng.choice([".py", ".py", ".py", ".py", "", ".plugin", ".txt", ".PY"])
    path = os.path.join(_tmpdir, "mod_%d_%d%s" % (os.getpid(), case_no % 3 if rng.random() < 0.5 else case_no, suffix))
    reused = os.path.exists(path)
    with open(path, "w", encoding="utf-8") as f:
        f.write(src)
    if rng.random() < 0.5:
        old = 1500000000 - case_no
        os.utime(path, (old, old))
    linecache.checkcache(path)
    ctx.hist("traceback_source_path", "reused" if reused else "fresh")
    try:
        ns = {"__name__": "rv_c17_mod_%d" % case_no}
        exec(compile(src, path, "exec"), ns)
        try:
            ns[info["entry"]](3)
        except Exception:
            et, ev, tb = sys.exc_info()
        else:
            return
        extra = rng.choice([0, 1, 3, 5])
        show_locals = rng.random() < 0.25
        tbr = Traceback.from_exception(et, ev, tb, width=rng.choice([100, 60, 120]), extra_lines=extra,
                                       word_wrap=rng.random() < 0.2, indent_guides=rng.random() < 0.5,
                                       show_locals=show_locals)
        ctx.hist("traceback_show_locals", show_locals)
        console = consoles.layout_console(rng.choice([100, 120, 80]))
        wit = {"source": src, "raise_lines": info["raise_lines"], "extra_lines": extra, "show_locals": show_locals,
               "file_suffix": suffix}
        ctx.hist("traceback_file_suffix", suffix or "(none)")
        try:
            shown = render_plain(console, tbr)
        except Exception as e:
            from rv.core.runner import exc_mechanism
            ctx.violation("traceback-render-raises:" + exc_mechanism(e).split(":", 1)[1], dict(wit, error=repr(e)))
            ctx.case_done(("tb", src), False)
            return
        wit["shown"] = shown
        # a frame header ("path:lineno in name") longer than the panel is wrapped at its blanks: put it back on one line
        # (the path of a generated module grows with the process id and the case number)
        merged, i = [], 0
        base = os.path.basename(path)
        while i < len(shown):
            inner = shown[i].strip("│ ").rstrip()
            if base in inner and re.search(r":\d+( in)?$", inner) and i + 1 < len(shown):
                merged.append(inner + " " + shown[i + 1].strip("│ ").strip())
                i += 2
                continue
            merged.append(shown[i])
            i += 1
        shown = merged
        # frames of our module: "path:lineno in name" header followed by the code block
        n_frames = 0
        for name, lineno in info["raise_lines"].items():
            ctx.count("mon.traceback_frames")
            n_frames += 1
            header = [i for i, l in enumerate(shown) if (":%d in %s" % (lineno, name)) in l]
            if not header:
                ctx.violation("traceback-frame-header-missing", dict(wit, frame=name, lineno=lineno))
                continue
            # the block until the next header / end
            block = []
            for l in shown[header[0] + 1:]:
                if " in f%d_" % case_no in l and os.path.basename(path) in l:
                    break
                block.append(l)
            marked = [l for l in block if "❱" in l]
            want_text = (src.split("\n") + [""] * lineno)[lineno - 1]     # the file's current content, not a cache's
            if len(marked) != 1:
                ctx.violation("traceback-failing-line-not-marked-once:leading_blank=%s" % (src.startswith("\n")),
                              dict(wit, frame=name, lineno=lineno, marked=marked, block=block))
                continue
            m = re.search(r"❱ *(\d+) (.*)$", marked[0])
            if not m:
                ctx.violation("traceback-marker-line-unparseable", dict(wit, line=marked[0]))
                continue
            num, text = int(m.group(1)), unguide(m.group(2)).rstrip(" │")
            text = text.rstrip()
            want = want_text.expandtabs(4).rstrip()
            if show_locals and text.startswith(want) and re.match(r"\s+[│╭╰]", text[len(want):]):
                # the frame's locals panel stands to the right of the code (Columns): the row continues with its border
                text = want
            if num != lineno:
                ctx.violation("traceback-marks-wrong-line-number:leading_blank=%s" % (src.startswith("\n")),
                              dict(wit, frame=name, lineno=lineno, shown_number=num))
            elif not (text == want or (cellref.width(want) > 80 and want.startswith(text[:-1]))
                      or "".join(text.split()) == "".join(want.split())):
                ctx.violation("traceback-marked-line-has-wrong-text:leading_blank=%s" % (src.startswith("\n")),
                              dict(wit, frame=name, lineno=lineno, shown=text, want=want))
        ctx.case_done(("tb", src), src.startswith("\n") or n_frames >= 2,
                      {"source": src, "raise_lines": info["raise_lines"]})
    finally:
        linecache.clearcache()


def workloads(tier):
    big = tier == "thorough"
    return [WL("syntax", wl_syntax, 250000 if big else 24000),
            WL("traceback", wl_traceback, 25000 if big else 3000)]


LEVEL_TEXT = ("Renders generated sources through the real Syntax (real Pygments lexers) under random option sets and "
              "compares, under the parsed gutter numbers, every displayed line with code.expandtabs().split('\\n'); "
              "generates failing modules on disk (removed afterwards), renders the real Traceback and compares the "
              "marked line of every frame with linecache.")
LEVEL_NOTE = "Trusted: Pygments lexers preserve characters; linecache; the gutter parser in this check."
TECHNIQUE = "runtime monitoring: line-by-line source-versus-render oracle under parsed gutter numbers; linecache oracle for traceback frames"
