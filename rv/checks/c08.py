"""C08 - framing renderables draw exact rectangles around intact content."""
import json

from rv.core.runner import WL
from rv.gen import specs as SP
from rv.gen import strings as S
from rv.gen import styles as G
from rv.model import cellref, consoles
from rv.model import textview as TV

ID = "C08"
LEVEL = "exploration"
RULE = ("for each wrapper (Panel, Padding, Align, Constrain, Styled) a random child (text, table, nested frame) is "
        "rendered ALONE (fresh object) at the inner width read off the wrapper's output and must reappear cell for "
        "cell, style for style inside an exact frame; Rule / Bar / ProgressBar widths at every W >= 1; Columns and "
        "Tree with unique tokens for exactly-once placement and ordering; widths m..200, ascii-only and legacy-windows "
        "variants. Non-trivial: the child has >=2 lines or the wrapper adds >=1 padding/border cell and W < 200; "
        "distinct by (spec, width, console flags).")
ASSUMPTIONS = ["the inner width is derived from the observed frame (line width minus border and padding) and the child "
               "is then rendered alone at that width",
               "structural minimum as in C01; below it nothing is asserted",
               "ProgressBar fills its width exactly only when a colour system is on and no_color is off (documented by its code path)"]
REQUIRED = ["mon.casts", "mon.panel", "mon.padding", "mon.align", "mon.constrain_styled", "mon.rule", "mon.bar", "mon.pbar",
            "mon.columns", "mon.tree", "mon.rule_filled"]
MIN_NONTRIVIAL = {"quick": 3000, "thorough": 150000}


def grid(console, renderable, options=None):
    """Rendered output as lines of (char, vis) cells."""
    lines, cur = [], []
    for seg in console.render(renderable, options or console.options):
        if seg.is_control:
            continue
        v = TV.vis_of_style(seg.style)
        for ch in seg.text:
            if ch == "\n":
                lines.append(cur)
                cur = []
            else:
                cur.append((ch, v))
    if cur:
        lines.append(cur)
    return lines


def gwidth(line):
    return sum(cellref.char_width(c) for c, _ in line)


def gtext(line):
    return "".join(c for c, _ in line)


def child_lines(console, child_spec, width, style=None):
    """The child rendered alone at `width`: its own lines (not padded) as rows of (char, vis)."""
    out = []
    opts = console.options.update(width=width)
    st = console.get_style(style) if style not in (None, "none") else None
    for line in console.render_lines(SP.build(child_spec), opts, style=st, pad=False):
        row = []
        for seg in line:
            if seg.is_control:
                continue
            v = TV.vis_of_style(seg.style)
            row.extend((ch, v) for ch in seg.text)
        out.append(row)
    return out


def region_matches(got_cells, want_row, region_width):
    """got_cells: the cells of the region where the child line lives (region_width cells wide).
    The child's own cells must come first, unchanged in character and style; the remainder of the region is
    padding: blank cells whose style the property does not constrain.  Returns None or a reason."""
    n = len(want_row)
    if gtext(got_cells[:n]) != gtext(want_row):
        return "characters"
    if [v for _, v in got_cells[:n]] != [v for _, v in want_row]:
        return "styles"
    if gtext(got_cells[n:]).strip(" ") != "":
        return "characters"
    if gwidth(got_cells) != region_width:
        return "width"
    return None


def rand_child(rng, depth=1, overdraw=False):
    if overdraw and rng.random() < 0.1:
        # a child that draws WIDER than the room it is given (a text that is neither wrapped nor cut): a frame that crops
        # its child - Panel, Padding - stays an exact rectangle around what fits
        return {"k": "text", "s": "".join(rng.choice("abcdefghij") for _ in range(rng.randint(30, 260))) + rng.choice(["", "\nshort", "\n\nz"]),
                "justify": None, "overflow": "ignore", "no_wrap": True, "style": None}
    prof = {"kinds": ["text", "panel", "padding", "table", "rule", "align", "group", "bar"]}
    spec = SP.gen_spec(rng, depth=depth, profile=prof, inline_ok=False)
    return spec


def console_for(rng, W):
    legacy = rng.random() < 0.12
    ascii_only = rng.random() < 0.12
    return consoles.layout_console(W, legacy=legacy, ascii_only=ascii_only), legacy, ascii_only


def widths_for(rng, m, extra=()):
    ws = sorted({m, m + 1, m + 2, rng.randint(m, max(m, 60)), rng.randint(m, 200), 80, 200} | set(extra))
    return [w for w in ws if m <= w <= 200]


# ---------------------------------------------------------------------------------------------- Panel
def wl_panel(ctx, rng, case_no):
    from rich import box as rbox
    child = rand_child(rng, rng.choice([0, 1, 2]), overdraw=True)
    spec = {"k": "panel", "child": child, "box": rng.choice(SP.BOX_NAMES),
            "title": rng.choice([None, None, "T", "a title", "漢字", "[b]x[/b] y", "long title " * 4]),
            "title_align": rng.choice(["left", "center", "right"]), "expand": rng.random() < 0.6,
            "width": rng.choice([None, None, None, 12, 30, 250]), "padding": SP.rand_pad(rng),
            "safe_box": rng.choice([None, True, False]),
            "style": G.definition(G.rand_record(rng, p_attr=0.1)) if rng.random() < 0.3 else "none"}
    if rng.random() < 0.25:
        spec["decor"] = SP._decor("panel", rng)
    spec["title_text"] = SP.rand_title_text(rng, 0.25)
    if spec["title_text"]:
        spec["title"] = spec["title_text"]["s"]      # (truthy marker; the Text is built from title_text)
    m = SP.structural_min(spec)
    pt, pr, pb, pl = SP.unpack_pad(spec["padding"])
    for W in widths_for(rng, m):
        console, legacy, ascii_only = console_for(rng, W)
        ctx.count("mon.panel")
        g = grid(console, SP.build(spec))
        wit = {"spec": spec, "width": W, "structural_min": m, "legacy": legacy, "ascii_only": ascii_only,
               "lines": [gtext(l) for l in g][:40]}
        ws = {gwidth(l) for l in g}
        if len(ws) != 1:
            ctx.violation("panel-lines-have-different-widths", dict(wit, widths=sorted(ws)))
            continue
        L = ws.pop()
        cap = W if spec["width"] is None else min(W, spec["width"])
        if L > W:
            ctx.violation("panel-wider-than-available", dict(wit, L=L))
            continue
        if spec["expand"] and not spec["title"] and L != cap:
            ctx.violation("expanding-panel-not-full-width", dict(wit, L=L, want=cap))
            continue
        if spec["expand"] and spec["title"] and not (cap <= L <= W):
            ctx.violation("expanding-panel-not-full-width", dict(wit, L=L, want=cap))
            continue
        inner = L - 2 - pl - pr
        if inner < 1:
            continue
        box = getattr(rbox, spec["box"]).substitute(console.options, safe=(console.safe_box if spec["safe_box"] is None else spec["safe_box"]))
        if not legacy and not ascii_only and box is not getattr(rbox, spec["box"]):
            ctx.violation("box-substituted-without-reason", wit)
        if ascii_only and not all(ord(c) < 128 for c in gtext(g[0]) + gtext(g[-1]) if not spec["title"]):
            ctx.violation("non-ascii-border-on-ascii-only-console", wit)
        top, bottom, mids = g[0], g[-1], g[1:-1]
        # borders
        if gtext(bottom) != box.bottom_left + box.bottom * (L - 2) + box.bottom_right:
            ctx.violation("panel-bottom-edge-wrong", wit)
            continue
        tt = gtext(top)
        if not spec["title"]:
            if tt != box.top_left + box.top * (L - 2) + box.top_right:
                ctx.violation("panel-top-edge-wrong", wit)
                continue
        else:
            from rich.text import Text
            title_plain = SP.title_plain(spec).expandtabs((spec.get("title_text") or {}).get("tab_size") or 8)
            if not (tt.startswith(box.top_left) and tt.endswith(box.top_right)):
                ctx.violation("panel-top-edge-wrong", wit)
                continue
            mid = tt[len(box.top_left):len(tt) - len(box.top_right)]
            body = mid.strip(box.top) if box.top != " " else mid
            shown = body.strip()
            # title characters in order (cropped when it does not fit)
            # (a cut that falls inside a double-width character leaves a blank in its place)
            if not (title_plain.startswith(shown.rstrip("…").rstrip(" ")) or shown == title_plain):
                ctx.violation("panel-title-characters-wrong", dict(wit, shown=shown, title=title_plain))
                continue
            if shown == title_plain and cellref.width(title_plain) + 4 <= L - 2 and box.top != " ":
                left_fill = len(mid) - len(mid.lstrip(box.top))
                right_fill = len(mid) - len(mid.rstrip(box.top))
                al = spec["title_align"]
                ok = (al == "left" and left_fill <= 1) or (al == "right" and right_fill <= 1) or \
                     (al == "center" and abs(left_fill - right_fill) <= 1)
                if not ok:
                    ctx.violation("panel-title-alignment-wrong", dict(wit, left_fill=left_fill, right_fill=right_fill))
                    continue
        # interior
        want = child_lines(console, child, inner, style=spec["style"])
        pv = TV.vis_of_style(console.get_style(spec["style"]))
        if len(mids) != len(want) + pt + pb:
            ctx.violation("panel-interior-line-count-differs", dict(wit, got=len(mids), child_lines=len(want), pad=(pt, pb)))
            continue
        bad = False
        for i, row in enumerate(mids):
            if row[0][0] != box.mid_left or row[-1][0] != box.mid_right:
                ctx.violation("panel-side-border-wrong", dict(wit, row=i))
                bad = True
                break
            interior = row[1:-1]
            if i < pt or i >= len(mids) - pb:
                if gtext(interior).strip() != "" or gwidth(interior) != L - 2:
                    ctx.violation("panel-padding-row-not-blank", dict(wit, row=i))
                    bad = True
                    break
                continue
            if gtext(interior[:pl]).strip(" ") or gtext(interior[len(interior) - pr:] if pr else []).strip(" "):
                ctx.violation("panel-padding-cells-not-blank", dict(wit, row=i))
                bad = True
                break
            region = interior[pl:len(interior) - pr] if pr else interior[pl:]
            why = region_matches(region, want[i - pt], inner)
            if why:
                ctx.violation("panel-child-%s-changed" % why, dict(wit, row=i, got=gtext(region), want=gtext(want[i - pt])))
                bad = True
                break
        sig = (json.dumps(spec, sort_keys=True, ensure_ascii=False, default=str), W, legacy, ascii_only)
        ctx.case_done(sig, len(want) >= 2 or W < 200, {"spec": spec, "width": W, "L": L, "inner": inner})


# ---------------------------------------------------------------------------------------------- Padding
def wl_padding(ctx, rng, case_no):
    child = rand_child(rng, rng.choice([0, 1, 2]), overdraw=True)
    spec = {"k": "padding", "child": child, "pad": SP.rand_pad(rng, small=False), "expand": rng.random() < 0.6,
            "style": rng.choice(["none", "none", "on blue", "bold red"])}
    pt, pr, pb, pl = SP.unpack_pad(spec["pad"])
    m = SP.structural_min(spec)
    from rich.padding import Padding
    for W in widths_for(rng, m):
        console, legacy, ascii_only = console_for(rng, W)
        ctx.count("mon.padding")
        if not spec["expand"] and spec["style"] == "none" and (pt, pr, pb) == (0, 0, 0) and case_no % 2:
            padding_obj = Padding.indent(SP.build(child), pl)        # the documented short form of (0, 0, 0, n), not expanding
        else:
            padding_obj = Padding(SP.build(child), spec["pad"], expand=spec["expand"], style=spec["style"])
        g = grid(console, padding_obj)
        wit = {"spec": spec, "width": W, "lines": [gtext(l) for l in g][:40]}
        ws = {gwidth(l) for l in g}
        if len(ws) > 1:
            ctx.violation("padding-lines-have-different-widths", dict(wit, widths=sorted(ws)))
            continue
        if not g:
            continue
        L = ws.pop()
        if L > W or (spec["expand"] and L != W):
            ctx.violation("padding-width-wrong", dict(wit, L=L))
            continue
        if not spec["expand"] and W - pl - pr >= 1:
            # a padding that does not expand adds exactly the requested cells to the child's own width (its reported
            # maximum at the width left for it - C09 decides that figure), up to the width available
            from rich.measure import Measurement
            ctx.count("mon.padding_fits_child")
            child_max = Measurement.get(console, SP.build(child), W - pl - pr).maximum
            if L != min(W, child_max + pl + pr):
                ctx.violation("padding-not-expanding-is-not-child-plus-requested-cells", dict(wit, L=L, child_maximum=child_max))
                continue
        inner = L - pl - pr
        if inner < 1:
            continue
        want = child_lines(console, child, inner, style=spec["style"])
        pv = TV.vis_of_style(console.get_style(spec["style"]))
        if len(g) != len(want) + pt + pb:
            ctx.violation("padding-line-count-differs", dict(wit, got=len(g), child_lines=len(want), pad=(pt, pb)))
            continue
        for i, row in enumerate(g):
            if i < pt or i >= len(g) - pb:
                if gtext(row).strip() != "" or any(v != pv for _, v in row):
                    ctx.violation("padding-row-not-blank-in-padding-style", dict(wit, row=i))
                    break
                continue
            lp, rp = row[:pl], (row[len(row) - pr:] if pr else [])
            if gtext(lp).strip(" ") or gtext(rp).strip(" ") or any(v != pv for _, v in lp + rp):
                ctx.violation("padding-cells-not-blank-in-padding-style", dict(wit, row=i))
                break
            region = row[pl:len(row) - pr] if pr else row[pl:]
            why = region_matches(region, want[i - pt], inner)
            if why:
                ctx.violation("padding-child-%s-changed" % why, dict(wit, row=i, got=gtext(region), want=gtext(want[i - pt])))
                break
        sig = (json.dumps(spec, sort_keys=True, ensure_ascii=False, default=str), W)
        ctx.case_done(sig, len(want) >= 2 or (pl + pr + pt + pb) > 0, {"spec": spec, "width": W})


# ---------------------------------------------------------------------------------------------- Align
def wl_align(ctx, rng, case_no):
    from rich.align import Align
    from rich.measure import Measurement
    child = rand_child(rng, rng.choice([0, 1]))
    spec = {"k": "align", "child": child, "align": rng.choice(["left", "center", "right"]), "pad": rng.random() < 0.7,
            "width": rng.choice([None, None, 5, 20, 100]), "style": rng.choice([None, None, "on red"])}
    m = SP.structural_min(spec)
    for W in widths_for(rng, m):
        console, legacy, ascii_only = console_for(rng, W)
        ctx.count("mon.align")
        g = grid(console, Align(SP.build(child), spec["align"], style=spec["style"], pad=spec["pad"], width=spec["width"]))
        wit = {"spec": spec, "width": W, "lines": [gtext(l) for l in g][:40]}
        if not g:
            continue
        # the child block: rendered alone at the width Align constrains it to (its measured maximum at the
        # console width, capped by Align.width and by the available width); the block is as wide as its widest line
        cw = Measurement.get(console, SP.build(child)).maximum
        if spec["width"] is not None:
            cw = min(cw, spec["width"])
        cw = min(cw, W)
        if cw < 1:
            continue
        want = grid(console, SP.build(child), console.options.update(width=cw))
        block_w = max([gwidth(l) for l in want] or [0])
        if any(gwidth(l) > W for l in g):
            ctx.violation("align-wider-than-available", wit)
            continue
        if len(g) != len(want):
            ctx.violation("align-line-count-differs", dict(wit, got=len(g), want=len(want)))
            continue
        excess = W - block_w
        left = 0 if excess <= 0 else {"left": 0, "center": excess // 2, "right": excess}[spec["align"]]
        for i, row in enumerate(g):
            text = gtext(row)
            wt = gtext(want[i])
            body = " " * left + wt
            if not text.startswith(body):
                lead = len(text) - len(text.lstrip(" "))
                kind = "align-block-at-wrong-offset:" + spec["align"] if text.strip() == wt.strip() and wt.strip() \
                    else "align-child-characters-changed"
                ctx.violation(kind, dict(wit, row=i, got=text, want=body, block_width=block_w))
                break
            rest = text[len(body):]
            if rest.strip(" "):
                ctx.violation("align-child-characters-changed", dict(wit, row=i, got=text, want=body))
                break
            full = gwidth(row)
            if excess > 0 and spec["pad"] and spec["align"] in ("left", "center") and full != W:
                ctx.violation("align-pad-does-not-fill-width", dict(wit, row=i, cells=full))
                break
            if excess > 0 and spec["align"] == "right" and full != W:
                ctx.violation("align-right-edge-not-at-available-width", dict(wit, row=i, cells=full))
                break
        sig = (json.dumps(spec, sort_keys=True, ensure_ascii=False, default=str), W)
        ctx.case_done(sig, W < 200, {"spec": spec, "width": W})


def gwidth_trim(line):
    return cellref.width(gtext(line).rstrip())


# ---------------------------------------------------------------------------------------------- Constrain / Styled
def wl_constrain_styled(ctx, rng, case_no):
    from rich.constrain import Constrain
    from rich.styled import Styled
    child = rand_child(rng, rng.choice([0, 1, 2]))
    m = SP.structural_min(child)
    which = rng.choice(["constrain", "styled"])
    cw = rng.choice([None, 1, 4, 10, 40, 300])
    rec = G.rand_record(rng, p_attr=0.15)
    for W in widths_for(rng, m):
        console, legacy, ascii_only = console_for(rng, W)
        ctx.count("mon.constrain_styled")
        if which == "constrain":
            eff = W if cw is None else min(cw, W)
            if eff < m:
                continue
            g = grid(console, Constrain(SP.build(child), cw))
            want = grid(console, SP.build(child), console.options.update(width=eff))
            wit = {"child": child, "constrain_width": cw, "width": W}
            if [gtext(l) for l in g] != [gtext(l) for l in want] or g != want:
                ctx.violation("constrain-changes-child-lines", dict(wit, got=[gtext(l) for l in g][:20],
                                                                    want=[gtext(l) for l in want][:20]))
        else:
            g = grid(console, Styled(SP.build(child), G.build(rec)))
            base = grid(console, SP.build(child))
            wit = {"child": child, "style": G.definition(rec), "width": W}
            if [gtext(l) for l in g] != [gtext(l) for l in base]:
                ctx.violation("styled-changes-child-characters", wit)
            else:
                # documented combination: wrapper style + child style (child wins where it sets a value)
                sv = rec
                for row_g, row_b in zip(g, base):
                    for (c1, v1), (c2, v2) in zip(row_g, row_b):
                        want_on = (G.on_attrs(sv) | v2[0]) - frozenset(a for a in G.ATTRS if False)
                        # attributes switched off by the child are not visible in v2; compare colours/links, and
                        # that every attribute the child has on stays on
                        if not v2[0] <= v1[0]:
                            ctx.violation("styled-drops-child-attribute", dict(wit, char=c1))
                            break
                        for idx, key in ((1, "fg"), (2, "bg")):
                            want_c = v2[idx] if v2[idx] is not None else (
                                G.expected_color(sv[key]) if sv[key] is not None else None)
                            if v1[idx] != want_c:
                                ctx.violation("styled-colour-combination-wrong", dict(
                                    wit, char=c1, got=v1[idx], want=want_c))
                                break
        ctx.case_done((which, json.dumps(child, sort_keys=True, ensure_ascii=False, default=str), cw, G.definition(rec), W),
                      W < 200, {"wrapper": which, "child": child, "width": W})


# ---------------------------------------------------------------------------------------------- Rule / Bar
def wl_rule(ctx, rng, case_no):
    from rich.rule import Rule
    w = S.pick_weights(rng)
    pool = S.UniquePool(rng, w)
    title = pool.string(rng.choice([0, 0, 3, 10, 30]), space=0.15)
    characters = rng.choice(["─", "─", "-", "=*", "漢", "━", "ab漢", "~"])
    title = "".join(c for c in title if c not in characters)
    align = rng.choice(["left", "center", "right"])
    for W in sorted({1, 2, 3, 4, 5, 6, rng.randint(1, 40), rng.randint(1, 200), 80}):
        console, legacy, ascii_only = console_for(rng, W)
        ctx.count("mon.rule")
        from rich.text import Text
        # a Text title: a str would be parsed as console markup (a separate feature, decided by C04)
        rule_kw = {"style": rng.choice(SP.DECOR_STYLES)} if rng.random() < 0.25 else {}
        g = grid(console, Rule(Text(title) if rng.random() < 0.7 or "[" in title or "\\" in title or ":" in title
                               else title, characters=characters, align=align, **rule_kw))
        wit = {"title": title, "characters": characters, "align": align, "width": W, "options": rule_kw,
               "lines": [gtext(l) for l in g], "ascii_only": ascii_only}
        if len(g) != 1:
            if not (len(g) == 0 and W < 1):
                ctx.violation("rule-is-not-one-line", wit)
            continue
        if gwidth(g[0]) != W:
            ctx.violation("rule-does-not-fill-width-exactly:" + ("title" if title.strip() else "plain"),
                          dict(wit, cells=gwidth(g[0])))
            continue
        text = gtext(g[0])
        tchars = [c for c in title.replace("\n", " ") if not c.isspace()]
        shown = [c for c in text if c in set(tchars)]
        if shown != tchars[:len(shown)]:
            ctx.violation("rule-title-characters-out-of-order", dict(wit, shown="".join(shown)))
            continue
        allowed = set(characters) | {" ", "…"} | set(title)      # (U+001C-1F are "whitespace" for str.isspace)
        if ascii_only and not all(ord(c) < 128 for c in characters):
            allowed |= {"-"}
        if any(c not in allowed for c in text):
            ctx.violation("rule-contains-foreign-characters", dict(wit, foreign=[c for c in text if c not in allowed][:5]))
        else:
            # "fill exactly the width": the line is RULE from edge to edge - blanks only next to the title (one on each
            # side), inside it, and at most one cell where the pattern's last character did not fit whole
            marks = set(tchars) | {"…"}
            idx = [i for i, c in enumerate(text) if c in marks]
            ctx.count("mon.rule_filled")
            if idx:
                lead = len(title) - len(title.lstrip())
                trail = len(title) - len(title.rstrip())
                left, right = text[:idx[0]], text[idx[-1] + 1:]
                slack = max(cellref.char_width(c) for c in characters) - 1      # (room a wide pattern character cannot use)
                import re as _re
                # (a title cut inside one of its own runs of blanks ends - or begins - with that run)
                slack += max([len(x) for x in _re.findall(r"\s+", title)] or [0])
                too_blank = left.count(" ") > 2 + slack + lead or right.count(" ") > 2 + slack + trail
            else:
                slack = max(cellref.char_width(c) for c in characters) - 1
                too_blank = text.count(" ") > 3 + 2 * slack + len(title)
            if too_blank:
                ctx.violation("rule-line-padded-with-blanks-instead-of-rule:" + ("ascii-only" if ascii_only else "utf8"),
                              dict(wit, blanks=text.count(" ")))
        ctx.case_done(("rule", title, characters, align, W, ascii_only), bool(title.strip()) and W < 60, wit)


def wl_bar(ctx, rng, case_no):
    from rich.bar import Bar
    from rich.progress_bar import ProgressBar
    size = rng.choice([1, 10, 100, 3.5, 1e6])
    begin = rng.uniform(0, size)
    end = rng.uniform(begin, size) if rng.random() < 0.85 else rng.uniform(0, size)
    bw = rng.choice([None, None, 1, 5, 20, 300])
    boundary = rng.random() < 0.4       # begin / end placed around eighth-of-a-cell boundaries of the rendered width
    total = rng.choice([100, 1, 0, 7.5, 10 ** 9])
    completed = rng.choice([0, total, total / 2 if total else 0, -1, total + 5, total * rng.random()])
    pulse = rng.random() < 0.25
    widths = {1, 2, 3, rng.randint(1, 40), rng.randint(1, 200), 80}
    if rng.random() < 0.06:
        # very wide bars (a status line written to a log file, a terminal on a video wall): any hidden maximum - a
        # strip prepared once, a table of so many entries - shows here
        widths |= {rng.choice([257, 1000, 1279, 1280, 1281, 1300, 2500, 5000])}
        if bw is not None and rng.random() < 0.5:
            bw = rng.choice([1300, 3000])
    for W in sorted(widths):
        cs = rng.choice(["truecolor", "standard", "256", None])
        no_color = rng.random() < 0.2
        console = consoles.layout_console(W, legacy=rng.random() < 0.1, ascii_only=rng.random() < 0.1,
                                          color_system=cs, no_color=no_color)
        if boundary:
            wcells = min(bw or W, W)
            k = rng.randrange(0, 8 * wcells + 1)
            begin = size * (k + rng.choice([0, 0.01, 0.49, 0.5, 0.51, 0.99])) / (8 * wcells)
            end = min(size, begin + size * rng.choice([0, 0.001, 0.01, 0.1, 0.5, 1, 7.99, 8]) / (8 * wcells))
        ctx.count("mon.bar")
        bar_kw = SP._decor("bar", rng) if rng.random() < 0.25 else {}
        g = grid(console, Bar(size, begin, end, width=bw, **bar_kw))
        want = min(bw or W, W)
        wit = {"bar": [size, begin, end, bw], "width": W, "lines": [gtext(l) for l in g], "eighth_boundary_case": boundary}
        if len(g) != 1 or gwidth(g[0]) != want:
            ctx.violation("bar-width-wrong", dict(wit, want=want, got=[gwidth(l) for l in g]))
        ctx.count("mon.pbar")
        pbar_kw = SP._decor("pbar", rng) if rng.random() < 0.25 else {}
        pbar = ProgressBar(total=total, completed=completed if not pbar_kw else 0, width=bw, pulse=pulse,
                           animation_time=1.5, **pbar_kw)
        if pbar_kw:
            pbar.update(completed, total)       # the state set after construction, as a live progress display does
        g = grid(console, pbar)
        wit = {"progress_bar": [total, completed, bw, pulse], "width": W, "color_system": cs, "no_color": no_color,
               "lines": [gtext(l) for l in g]}
        got = sum(gwidth(l) for l in g)
        if len(g) > 1 or got > want:
            ctx.violation("progress-bar-exceeds-width", dict(wit, want=want, got=got))
        elif cs is not None and not no_color and got != want:
            ctx.violation("progress-bar-does-not-fill-width:" + ("pulse" if pulse else "bar"), dict(wit, want=want, got=got))
        ctx.case_done(("bar", size, begin, end, bw, total, completed, pulse, W, cs, no_color), W < 100, wit)


# ---------------------------------------------------------------------------------------------- Columns
def wl_columns(ctx, rng, case_no):
    from rich.columns import Columns
    w = S.pick_weights(rng)
    S.drop_zero(w)
    pool = S.UniquePool(rng, w)
    n = rng.choice([1, 2, 3, 5, 8, 13, 21])
    multi = rng.random() < 0.2
    tokens = []
    for _ in range(n):
        t = pool.word(1, rng.choice([1, 3, 8]))
        if multi and rng.random() < 0.4:
            t = t + "\n" + pool.word(1, 4)
        tokens.append(t)
    opts = {"equal": rng.random() < 0.3, "expand": rng.random() < 0.3, "column_first": rng.random() < 0.4,
            "right_to_left": rng.random() < 0.3, "align": rng.choice([None, None, "left", "center", "right"]),
            "padding": SP.rand_pad(rng)}
    via_add = rng.random() < 0.3
    widest = max(cellref.width(p) for t in tokens for p in t.split("\n"))
    _, pr, _, pl = SP.unpack_pad(opts["padding"])
    m = widest + pl + pr
    for W in widths_for(rng, m, extra=(widest * 2 + 3, widest * 3 + 6)):
        console = consoles.layout_console(W)
        ctx.count("mon.columns")
        # (a str item is console markup: a token that happens to look like a tag - "[m]..." - is handed over as a Text,
        # which is taken literally; the others go in as plain strings, the common way)
        from rich.text import Text as _Text
        items = [_Text(t) if ("[" in t or "\\" in t or ":" in t) else t for t in tokens]
        if via_add:
            cols = Columns(None, **opts)
            for t in items:
                cols.add_renderable(t)
        else:
            cols = Columns(list(items), **opts)
        g = grid(console, cols)
        lines = [gtext(l) for l in g]
        wit = {"tokens": tokens, "options": opts, "width": W, "lines": lines[:40]}
        if any(gwidth(l) > W for l in g):
            ctx.violation("columns-wider-than-available", wit)
            continue
        # positions of each token's first character (tokens are unique)
        pos = {}
        ok = True
        for ti, t in enumerate(tokens):
            first = t.split("\n")[0]
            hits = [(ln, cellref.width(line[:line.index(first)])) for ln, line in enumerate(lines) if first in line]
            if len(hits) != 1:
                ctx.violation("columns-item-not-shown-exactly-once", dict(wit, token=t, hits=hits))
                ok = False
                break
            pos[ti] = hits[0]
        if not ok:
            continue
        # grid coordinates: row = rank of the line the item starts on; column = rank of the item inside its row
        # (counted from the right for right_to_left)
        row_starts = sorted({r for r, _ in pos.values()})
        coords = {}
        for r in row_starts:
            members = sorted((c, ti) for ti, (rr, c) in pos.items() if rr == r)
            if opts["right_to_left"]:
                members.reverse()
            for rank, (_, ti) in enumerate(members):
                coords[ti] = (row_starts.index(r), rank)
        ncols = max(c for _, c in coords.values()) + 1
        order = sorted(coords, key=(lambda ti: (coords[ti][1], coords[ti][0])) if opts["column_first"]
                       else (lambda ti: coords[ti]))
        if order != list(range(len(tokens))):
            ctx.violation("columns-items-out-of-documented-order:%s%s" % (
                "column_first" if opts["column_first"] else "row_first", "+rtl" if opts["right_to_left"] else ""),
                dict(wit, order=order, coords={str(k): v for k, v in coords.items()}))
        ctx.case_done(("cols", tuple(tokens), json.dumps(opts, sort_keys=True), W), ncols >= 2 and len(row_starts) >= 2, wit)


# ---------------------------------------------------------------------------------------------- Tree
def wl_tree(ctx, rng, case_no):
    w = S.pick_weights(rng)
    S.drop_zero(w)
    pool = S.UniquePool(rng, w)
    nodes = []     # DFS order of *visible* nodes: (label, depth)

    def node(d, visible):
        label = pool.word(1, rng.choice([2, 5, 9]))
        multi = rng.random() < 0.15
        text = label + ("\n" + pool.word(1, 3) if multi else "")
        if visible:
            nodes.append((text, d))
        n = {"label": {"k": "text", "s": text, "justify": None, "overflow": None, "no_wrap": None, "style": None},
             "expanded": rng.random() < 0.8, "children": [], "guide_style": rng.choice([None, None, "bold", "underline2"])}
        if d < 4:
            for _ in range(rng.choice([0, 0, 1, 2, 3]) if d else rng.choice([1, 2, 3])):
                n["children"].append(node(d + 1, visible and n["expanded"]))
        return n
    spec = {"k": "tree", "root": node(0, True)}
    if rng.random() < 0.25:
        spec["decor"] = SP._decor("tree", rng)
    m = SP.structural_min(spec)
    hidden = set(pool.used) - set("".join(t for t, _ in nodes)) - S.FRAME_GLYPHS - set(" \n\t")
    for W in widths_for(rng, m):
        console, legacy, ascii_only = console_for(rng, W)
        ctx.count("mon.tree")
        g = grid(console, SP.build(spec))
        lines = [gtext(l) for l in g]
        wit = {"nodes": nodes, "width": W, "structural_min": m, "ascii_only": ascii_only, "lines": lines[:60]}
        if any(gwidth(l) > W for l in g):
            ctx.violation("tree-wider-than-available", wit)
            continue
        if ascii_only and any(ord(c) > 127 and c in S.FRAME_GLYPHS for l in lines for c in l):
            ctx.violation("tree-non-ascii-guides-on-ascii-only-console", wit)
            continue
        ln = 0
        ok = True
        for text, d in nodes:
            for k, piece in enumerate(text.split("\n")):
                # a label line may be wrapped when narrow: collect lines until all characters are seen
                need = [c for c in piece if not c.isspace()]
                seen = []
                while len(seen) < len(need) and ln < len(lines):
                    line = lines[ln]
                    prefix = line[:4 * d] if cellref.width(line[:4 * d]) == 4 * d else None
                    if prefix is None or any(c in set("".join(t for t, _ in nodes)) for c in prefix):
                        ctx.violation("tree-label-not-prefixed-by-4-cells-per-level", dict(wit, line=line, depth=d, label=text))
                        ok = False
                        break
                    body = line[4 * d:]
                    seen.extend(c for c in body if not c.isspace())
                    ln += 1
                if not ok:
                    break
                if seen != need:
                    ctx.violation("tree-nodes-not-in-depth-first-order-exactly-once",
                                  dict(wit, label=text, depth=d, seen="".join(seen)))
                    ok = False
                    break
            if not ok:
                break
        if ok:
            rest = "".join(lines[ln:])
            if any(not c.isspace() and c not in S.FRAME_GLYPHS for c in rest):
                ctx.violation("tree-extra-content-after-last-node", dict(wit, rest=rest[:80]))
            if any(c in hidden for l in lines for c in l):
                ctx.violation("tree-shows-children-of-collapsed-node", wit)
        ctx.case_done(("tree", json.dumps(spec, sort_keys=True, ensure_ascii=False), W, ascii_only),
                      len(nodes) >= 3, {"nodes": nodes, "width": W})


def _strip_casts(spec):
    """The same tree with every __rich__ wrapper replaced by what it casts to."""
    if isinstance(spec, dict):
        if spec.get("k") == "richcast":
            return _strip_casts(spec["child"])
        return {k: _strip_casts(v) for k, v in spec.items()}
    if isinstance(spec, list):
        return [_strip_casts(v) for v in spec]
    return spec


def wl_casts(ctx, rng, case_no):
    """An object that is a renderable only through __rich__ stands for what it casts to, wherever it sits: a frame
    around a tree with such objects renders, cell for cell, like the frame around the tree without the wrappers."""
    inner = SP.gen_spec(rng, depth=rng.choice([0, 1, 2]), profile={"casts": False})
    r = rng.random()
    if r < 0.6:
        inner = {"k": "richcast", "child": inner}
    elif inner["k"] in ("panel", "padding", "align", "styled", "constrain") and inner["child"]["k"] != "richcast":
        inner = dict(inner, child={"k": "richcast", "child": inner["child"]})
    else:
        inner = {"k": "richcast", "child": inner}
    frame = rng.choice(["panel", "padding", "align", "none", "table", "tree", "columns", "group"])
    if frame == "panel":
        spec = {"k": "panel", "child": inner, "box": rng.choice(SP.BOX_NAMES), "title": None, "title_align": "center",
                "expand": rng.random() < 0.6, "width": None, "padding": SP.rand_pad(rng), "safe_box": None, "style": "none"}
    elif frame == "padding":
        spec = {"k": "padding", "child": inner, "pad": SP.rand_pad(rng, small=False), "expand": rng.random() < 0.6}
    elif frame == "align":
        spec = {"k": "align", "child": inner, "align": rng.choice(["left", "center", "right"]), "pad": True, "width": None}
    elif frame == "table":
        spec = SP.gen_table_spec(rng, 1, {"casts": False}, ncols=2, nrows=1, cell_gen=lambda: inner)
    elif frame == "tree":
        spec = {"k": "tree", "root": {"label": inner, "expanded": True, "guide_style": None,
                                      "children": [{"label": inner, "expanded": True, "children": [], "guide_style": None}]}}
    elif frame == "columns":
        spec = {"k": "columns", "items": [inner, inner], "equal": False, "expand": False, "column_first": False,
                "right_to_left": False, "align": None, "padding": (0, 1), "title": None, "width": None}
    elif frame == "group":
        spec = {"k": "group", "children": [inner, inner], "fit": rng.random() < 0.5}
    else:
        spec = inner
    plain = _strip_casts(spec)
    m = SP.structural_min(plain)
    for W in widths_for(rng, m):
        console = consoles.layout_console(W)
        ctx.count("mon.casts")
        got = [(gtext(l), [v for _, v in l]) for l in grid(console, SP.build(spec))]
        want = [(gtext(l), [v for _, v in l]) for l in grid(console, SP.build(plain))]
        if got != want:
            ctx.violation("object-cast-through-__rich__-renders-differently-inside:%s" % frame,
                          {"spec": spec, "width": W, "lines": [g[0] for g in got][:30], "without_cast": [w_[0] for w_ in want][:30]})
            break
    ctx.case_done(("cast", json.dumps(spec, sort_keys=True, default=str, ensure_ascii=False)), frame != "none",
                  {"spec": spec, "frame": frame})


def workloads(tier):
    big = tier == "thorough"
    k = 25 if big else 1
    return [WL("panel", wl_panel, 2500 * k), WL("padding", wl_padding, 2000 * k), WL("align", wl_align, 2000 * k),
            WL("constrain_styled", wl_constrain_styled, 2000 * k), WL("rule", wl_rule, 3000 * k),
            WL("bar", wl_bar, 3000 * k), WL("columns", wl_columns, 2500 * k), WL("tree", wl_tree, 2500 * k),
            WL("casts", wl_casts, 2500 * k)]


LEVEL_TEXT = ("Renders real Panel / Padding / Align / Constrain / Styled around random children and compares the frame's "
              "interior, cell for cell and style for style, with the child rendered alone at the inner width; checks "
              "exact fill of Rule / Bar / ProgressBar at every width >= 1, and exactly-once placement and documented "
              "ordering of unique tokens in Columns and Tree (with the 4-cells-per-level guide prefix).")
LEVEL_NOTE = "Trusted: reference width table; Console.render_lines for rendering the child alone; the box definitions as data."
TECHNIQUE = "runtime monitoring: child-alone-versus-framed relational oracle and exactly-once token placement on the rendered Segment stream"
