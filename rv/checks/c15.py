"""C15 - recording, capture and export agree with what was written."""
import datetime
import html
import io
import re

from rv.core.runner import WL
from rv.gen import strings as S
from rv.gen import styles as G
from rv.model import sgr

ID = "C15"
LEVEL = "exploration"
RULE = ("random histories (<=14 operations) of print (styled Text with <, >, &, links, wide characters; markup "
        "strings; small panels/tables), log, rule, line, bell, clear, show_cursor, control codes, capture blocks and "
        "export_text/export_html with and without clear, on recording consoles over colour system x terminal x width "
        "x legacy_windows; every export is compared with the file (relational oracles, no golden strings); a twin "
        "console without capture gives the expected capture result; a truecolor twin gives the expected styled "
        "export. Non-trivial: >=4 operations incl. >=1 export after >=2 prints; distinct by history.")
ASSUMPTIONS = ["OSC-8 link ids (time+random per Style instance) are normalised before comparing streams",
               "get_datetime is injected so that log timestamps are equal on the twin consoles",
               "visible text = file with SGR/OSC-8 sequences and control functions removed by rv/model/sgr.py"]
REQUIRED = ["mon.huge_output", "mon.export_text", "mon.export_html", "mon.export_styled", "mon.capture_twin", "mon.clear_semantics"]
MIN_NONTRIVIAL = {"quick": 1500, "thorough": 100000}

_ID = re.compile(r"\x1b\]8;id=[^;]*;")
_PRE = re.compile(r"<pre[^>]*>(.*)</pre>", re.S)
_TAG = re.compile(r"<[^>]+>")
FIXED_TIME = datetime.datetime(2021, 2, 3, 4, 5, 6)


class Boom(Exception):
    pass


def norm(stream):
    return _ID.sub("\x1b]8;id=X;", stream)


def make_console(cfg, **over):
    from rich.console import Console
    kw = dict(file=io.StringIO(), width=cfg["width"], color_system=cfg["color_system"],
              force_terminal=cfg["terminal"], legacy_windows=cfg["legacy"], record=True, _environ={},
              get_datetime=lambda: FIXED_TIME, style=cfg.get("style"))
    kw.update(over)
    return Console(**kw)


def rand_printable(rng):
    """A spec for something to print: (kind, payload) - rebuilt fresh for every console."""
    r = rng.random()
    w = S.pick_weights(rng)
    if rng.random() < 0.003:
        # one print whose output is far larger than any buffer or block size a writer might use
        # (kept as a compact spec so that witnesses stay small)
        return ("huge", {"chars": rng.choice([5000, 20000, 33000, 70000, 140000]), "line": rng.choice([7, 60, 300, 5000]),
                         "wide": rng.random() < 0.3})
    if r < 0.45:
        s = S.free_string(rng, rng.choice([3, 10, 30, 70]), w, space=0.15, newline=0.03, min_len=1)
        if rng.random() < 0.4:
            pos = rng.randint(0, len(s))
            s = s[:pos] + rng.choice(["<", ">", "&", "&amp;", "<b>", "a<b&c>d", "\"'"]) + s[pos:]
        spans = []
        for _ in range(rng.randint(0, 3)):
            a = rng.randint(0, len(s))
            b = rng.randint(a, len(s))
            if b > a:
                rec = G.rand_record(rng, p_attr=0.1, p_link=0.25)
                if rec["link"] and rng.random() < 0.3:
                    # characters that mean something inside an HTML attribute or tag
                    rec["link"] = rng.choice(['https://example.org/?q="><i>injected</i>', "https://example.org/a>b",
                                              "https://example.org/?a=1&b=2&amp;c", "https://example.org/it's",
                                              'file:///tmp/"quoted".txt'])
                spans.append((G.build(rec), a, b))
        return ("text", {"s": s, "spans": spans})
    if r < 0.65:
        return ("markup", rng.choice(["[bold]bold[/bold] plain", "[red on white]x < y & z[/] tail",
                                      "[link=https://example.org/a?b=1&c=2]link[/link] [i]it[/i]",
                                      "1 < 2 > 0 & True None 3.14 'str'", "漢字 [u]下線[/u] ｆｕｌｌ",
                                      ":smile: [b]b[/b] \\[escaped]"]))
    if r < 0.8:
        return ("panel", {"s": S.free_string(rng, 20, w, space=0.15, min_len=1),
                          "title": rng.choice([None, "T<&>"])})
    if r < 0.92:
        return ("table", {"cells": [[S.free_string(rng, 8, w, space=0.1) + rng.choice(["", "<", "&"])
                                     for _ in range(2)] for _ in range(rng.randint(1, 3))]})
    return ("plain", S.free_string(rng, 15, w, space=0.15, min_len=1))


def build_printable(p):
    kind, payload = p
    if kind == "text":
        from rich.text import Text
        t = Text(payload["s"])
        for d, a, b in payload["spans"]:
            t.stylize(d, a, b)
        return t
    if kind in ("markup", "plain"):
        return payload
    if kind == "huge":
        from rich.text import Text
        n, line = payload["chars"], payload["line"]
        alphabet = "漢字ｆｕ" if payload["wide"] else "abcdefghijklmnopqrstuvwxyz"
        body = "\n".join("%06d %s" % (i, (alphabet * (line // len(alphabet) + 1))[:line]) for i in range(n // (line + 8) + 1))
        return Text(body, style="bold" if payload["wide"] else "")
    if kind == "panel":
        from rich.panel import Panel
        return Panel(payload["s"], title=payload["title"])
    if kind == "table":
        from rich.table import Table
        t = Table("h1", "h<2>")
        for row in payload["cells"]:
            t.add_row(*row)
        return t


def apply(console, op):
    """Apply a non-export operation; one call site so that log() records the same path:line on twins."""
    k = op[0]
    if k == "print":
        console.print(build_printable(op[1]), **op[2])
    elif k == "log":
        console.log(build_printable(op[1]))
    elif k == "print_objects":
        console.print(*op[1], **op[2])
    elif k == "print_empty":
        console.print()
    elif k == "log_empty":
        console.log()
    elif k == "log_objects":
        console.log(*op[1], style=op[2])
    elif k == "out":
        console.out(*op[1], **op[2])
    elif k == "rule":
        console.rule(op[1])
    elif k == "line":
        console.line(op[1])
    elif k == "bell":
        console.bell()
    elif k == "clear":
        console.clear(op[1])
    elif k == "show_cursor":
        console.show_cursor(op[1])
    elif k == "control":
        console.control(op[1])
    elif k in ("capture", "capture_raises"):
        # a capture block inside a capture block: each returns what was printed in it (the results are kept on the
        # console object and compared with the twin's)
        with console.capture() as cap:
            for sub in op[1]:
                apply(console, sub)
        console.__dict__.setdefault("_rv_caps", []).append(cap.get())


def rand_op(rng, allow_capture=True, depth=0):
    r = rng.random()
    if r < 0.42:
        kw = {}
        if rng.random() < 0.2:
            kw["style"] = rng.choice(["bold", "on blue", "italic red"])
        if rng.random() < 0.15:
            kw["justify"] = rng.choice(["center", "right"])
        if rng.random() < 0.15:
            kw["end"] = rng.choice(["", "!\n", "\n\n", "\n\n\n", " \n\n"])
        if rng.random() < 0.1:
            kw["soft_wrap"] = True        # no wrapping, no cropping: the text goes out as it is
        if rng.random() < 0.05:
            kw["crop"] = False
        p = rand_printable(rng)
        if p[0] == "plain":
            kw["markup"] = False
        return ["print", p, kw]
    if r < 0.46:
        return ["log", rand_printable(rng)]
    if r < 0.50:
        # what programs actually pass: several objects of any type, no objects at all, raw output
        objects = [rng.choice([1, 2.5, None, True, [1, 2, 3], {"a": [1, "<b>"], "k&": None}, ("x",), "plain < & >",
                               "[bold]markup[/bold]", "", "two\nlines", {1, 2}, b"bytes", 10 ** 30])
                   for _ in range(rng.randint(1, 4))]
        q = rng.random()
        if q < 0.45:
            kw = {}
            if rng.random() < 0.3:
                kw["sep"] = rng.choice(["", ", ", "\n", " & "])
            if rng.random() < 0.2:
                kw["style"] = rng.choice(["bold", "on blue"])
            return ["print_objects", objects, kw]
        if q < 0.6:
            return ["log_objects", objects, rng.choice([None, None, "dim", "on red"])]
        if q < 0.75:
            return ["print_empty"]
        if q < 0.85:
            return ["log_empty"]
        return ["out", [str(o) for o in objects], rng.choice([{}, {"sep": "-"}, {"end": ""}, {"style": "bold"},
                                                                {"highlight": False}, {"style": "on red", "end": "\n\n"},
                                                                {"style": "black on white", "end": "\n\n\n"}])]
    if r < 0.56:
        return ["rule", rng.choice(["", "title", "a < b & c", "漢字"])]
    if r < 0.61:
        return ["line", rng.choice([1, 1, 2, 0])]
    if r < 0.65:
        return ["bell"]
    if r < 0.68:
        return ["clear", rng.random() < 0.5]
    if r < 0.71:
        return ["show_cursor", rng.random() < 0.5]
    if r < 0.73:
        return ["control", rng.choice(["\x1b[1A", "\x1b[2K", "\r"])]
    if r < 0.83 and allow_capture:
        # (one capture block in eight prints nothing at all: what follows it must still reach the file)
        subs = [rand_op(rng, depth == 0 and rng.random() < 0.35, depth + 1) for _ in range(rng.choice([0, 1, 1, 2, 2, 2, 3, 3]))]
        subs = [o for o in subs if not o[0].startswith("export")]
        return ["capture" if rng.random() < 0.8 else "capture_raises", subs if (subs or rng.random() < 0.6) else [["line", 1]]]
    if r < 0.92:
        return ["export_text", {"clear": rng.random() < 0.5, "styles": rng.random() < 0.5, "via_file": rng.random() < 0.25}]
    return ["export_html", {"clear": rng.random() < 0.5, "inline_styles": rng.random() < 0.5, "via_file": rng.random() < 0.25}]


def do_export(console, kind, via_file=False, **kw):
    """export_text / export_html directly, or through save_text / save_html and the file they write."""
    if not via_file:
        return getattr(console, "export_" + kind)(**kw)
    import os
    import tempfile
    fd, path = tempfile.mkstemp(prefix="rvc15_", suffix="." + kind)
    os.close(fd)
    try:
        getattr(console, "save_" + kind)(path, **kw)
        with open(path, "rt", encoding="utf-8", newline="") as f:
            return f.read()
    finally:
        os.unlink(path)


def visible(stream):
    d = sgr.decode(stream)
    return d.text, d


def html_text(doc):
    """Text content of the <pre> element, by a real HTML parser (attribute values such as a link URL may contain
    '>' or '<' inside quotes, which a tag-stripping regex would mis-handle)."""
    from html.parser import HTMLParser

    class P(HTMLParser):
        def __init__(self):
            super().__init__(convert_charrefs=True)
            self.depth = 0
            self.out = []

        def handle_starttag(self, tag, attrs):
            if tag == "pre":
                self.depth += 1

        def handle_endtag(self, tag):
            if tag == "pre":
                self.depth -= 1

        def handle_data(self, data):
            if self.depth > 0:
                self.out.append(data)
    p = P()
    p.feed(doc)
    p.close()
    return "".join(p.out)


def op_json(op):
    return repr(op)[:400]


def wl_histories(ctx, rng, case_no):
    cfg = {"width": rng.choice([20, 40, 80, 120]),
           "color_system": rng.choice([None, "standard", "256", "truecolor", "truecolor", "windows"]),
           "terminal": rng.random() < 0.7, "legacy": rng.random() < 0.15,
           "style": rng.choice([None, None, None, None, "on blue", "italic", "bold red"])}
    main = make_console(cfg)
    twin = make_console(cfg)                                   # same config, never captures
    # reference for the styled export: same layout decisions (width, legacy box substitution) printed in
    # truecolor on a terminal; a legacy-windows console does not write links, so links are compared
    # only when the flag is off
    ref = make_console(cfg, color_system="truecolor", force_terminal=True)
    mark = {"main": 0, "twin": 0, "ref": 0}
    ops = [rand_op(rng) for _ in range(rng.randint(2, 14))]
    ops.append(["export_text", {"clear": True, "styles": False}])
    log = []
    prints_since_clear = 0
    exports = 0
    captured_any = False
    tag_cfg = "%s/%s%s" % (cfg["color_system"], "tty" if cfg["terminal"] else "notty", "/legacy" if cfg["legacy"] else "")
    ctx.hist("config", tag_cfg)
    for op in ops:
        log.append(op_json(op))
        k = op[0]
        wit = {"config": cfg, "log": log}
        if k in ("capture", "capture_raises"):
            before = main.file.getvalue()
            twin_before = len(twin.file.getvalue())
            if k == "capture":
                with main.capture() as cap:
                    for sub in op[1]:
                        apply(main, sub)
            else:
                # the block is left by an exception after it has printed: the exception propagates, and the
                # capture still holds (and the file still lacks) what was printed inside
                ctx.count("mon.capture_left_by_exception")
                try:
                    with main.capture() as cap:
                        for sub in op[1]:
                            apply(main, sub)
                        raise Boom("inside capture")
                except Boom:
                    pass
                else:
                    ctx.violation("exception-swallowed-by-capture-block", wit)
                    return
            try:
                got = cap.get()
            except Exception as e:
                ctx.violation("capture-result-unavailable-after-exception:%s" % type(e).__name__, dict(wit, error=repr(e)))
                return
            # keep history-dependent state (LogRender omits a timestamp equal to the previous one) in step
            with ref.capture():
                for sub in op[1]:
                    apply(ref, sub)
            for sub in op[1]:
                apply(twin, sub)
                # a captured print never reaches the file, so the reference for the exports must not see it
            want = twin.file.getvalue()[twin_before:]
            # the twin wrote what the capture block printed: drop it again so that twin == main file
            twin.file.seek(twin_before)
            twin.file.truncate()
            # (the twin's record still contains it; the twin's record is never exported)
            ctx.count("mon.capture_twin")
            captured_any = True
            inner_main, inner_twin = main.__dict__.pop("_rv_caps", []), twin.__dict__.pop("_rv_caps", [])
            ref.__dict__.pop("_rv_caps", None)
            if inner_main or inner_twin:
                ctx.count("mon.nested_capture")
                if [norm(x) for x in inner_main] != [norm(x) for x in inner_twin]:
                    ctx.violation("inner-capture-differs-from-what-was-printed-inside-it",
                                  dict(wit, inner=inner_main, want_inner=inner_twin))
                    return
            if norm(got) != norm(want):
                ctx.violation("capture-differs-from-what-would-have-been-written", dict(wit, got=got, want=want))
                return
            if main.file.getvalue() != before:
                ctx.violation("capture-block-wrote-to-file", dict(wit, written=main.file.getvalue()[len(before):]))
                return
        elif k in ("export_text", "export_html"):
            exports += 1
            file_since = main.file.getvalue()[mark["main"]:]
            vis, dec = visible(file_since)
            if dec.unexpected:
                ctx.violation("unexpected-sequence-in-file", dict(wit, unexpected=dec.unexpected[:3]))
                return
            clear = op[1]["clear"]
            after_capture = ":after-capture-block" if captured_any else ""
            if k == "export_text" and not op[1]["styles"]:
                ctx.count("mon.export_text")
                out = do_export(main, "text", op[1].get("via_file"), clear=clear, styles=False)
                if out != vis:
                    ctx.violation("export_text-differs-from-visible-file-text" + after_capture,
                                  dict(wit, export=out, visible=vis))
                    return
            elif k == "export_text":
                ctx.count("mon.export_styled")
                out = do_export(main, "text", op[1].get("via_file"), clear=clear, styles=True)
                got = sgr.decode(out)
                want = sgr.decode(ref.file.getvalue()[mark["ref"]:])
                if got.unexpected:
                    ctx.violation("unexpected-sequence-in-styled-export", dict(wit, unexpected=got.unexpected[:3]))
                    return
                if got.text != vis:
                    ctx.violation("styled-export-characters-differ-from-file" + after_capture,
                                  dict(wit, export=got.text, visible=vis))
                    return
                gc, wc = got.chars, want.chars
                if cfg["legacy"]:
                    gc = [c[:4] for c in gc]
                    wc = [c[:4] for c in wc]
                if gc != wc:
                    i = next((i for i, (a, b) in enumerate(zip(got.chars, want.chars)) if a != b), None)
                    ctx.violation("styled-export-styles-differ-from-truecolor-print" + after_capture,
                                  dict(wit, index=i, got=repr(got.chars[i]) if i is not None else None,
                                       want=repr(want.chars[i]) if i is not None else None))
                    return
            else:
                ctx.count("mon.export_html")
                out = do_export(main, "html", op[1].get("via_file"), clear=clear, inline_styles=op[1]["inline_styles"])
                text = html_text(out)
                if text != vis:
                    kind = "control-code-in-html" if text and any(ord(c) < 32 and c != "\n" for c in text) else "text-differs"
                    ctx.violation("export_html-%s-from-visible-file-text%s" % (kind, after_capture),
                                  dict(wit, html_text=text, visible=vis))
                    return
            # clear semantics
            ctx.count("mon.clear_semantics")
            again = main.export_text(clear=False)
            if clear:
                # (the plain export leaves control codes out, so a record that still holds a bell or a cursor code
                # looks empty through it: the styled export, which writes everything, has to be empty as well)
                again_styled = main.export_text(clear=False, styles=True)
                if again != "" or again_styled != "":
                    ctx.violation("export-with-clear-left-record-non-empty" + (":control-codes-only" if again == "" else ""),
                                  dict(wit, again=again, again_styled=again_styled))
                    return
                mark["main"] = len(main.file.getvalue())
                mark["ref"] = len(ref.file.getvalue())
                prints_since_clear = 0
                captured_any = False
            else:
                if again != vis:
                    ctx.violation("export-without-clear-changed-record" + after_capture, dict(wit, again=again, visible=vis))
                    return
        else:
            apply(main, op)
            apply(twin, op)
            apply(ref, op)
            prints_since_clear += 1
            if norm(main.file.getvalue()) != norm(twin.file.getvalue()):
                ctx.violation("twin-consoles-diverged(harness)", wit)
                return
        ctx.hist("ops", k)
        if k in ("print", "log") and op[1][0] == "huge":
            ctx.count("mon.huge_output")
            ctx.hist("huge_output_chars", op[1][1]["chars"])
    ctx.case_done(("h", repr(log), repr(cfg)), len(ops) >= 4 and exports >= 1, {"config": cfg, "log": log})


def workloads(tier):
    return [WL("histories", wl_histories, 400000 if tier == "thorough" else 12000)]


LEVEL_TEXT = ("Drives real recording consoles through seeded random operation histories and compares, at every export, "
              "the four outputs with each other: file (decoded by the independent SGR model) vs export_text vs "
              "export_html (tags stripped, entities decoded) vs styled export, plus capture results against a twin "
              "console and clear / no-clear semantics.")
LEVEL_NOTE = "Trusted: rv/model/sgr.py; Python's html.unescape; the twin-console construction (same configuration, same call site)."
TECHNIQUE = "runtime monitoring: relational (metamorphic twin-console) oracle over recorded file output and exports after every export operation"
