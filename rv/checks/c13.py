"""C13 - cell-width arithmetic and line shaping are exact and history-independent."""
from rv.core.runner import WL
from rv.monitor.poison import call_poison_call
from rv.gen import strings as S
from rv.model import cellref

ID = "C13"
LEVEL = "exploration"
RULE = ("codepoints: every one of the 1,114,112 code points is compared with a linear scan of the "
        "width table (exhaustive); strings: random mixed-width strings <=80 chars measured by the "
        "real cell_len under adversarial cache histories (shuffled orders, >4096-entry floods of both "
        "caches); set_cell_size for all n in 0..100; chop_cells for widths>=2 x positions; segment "
        "shapers on random styled segment lists. A case is non-trivial when the string contains a "
        "non-ASCII width class (0 or 2 cells) or, for shapers, when a crop or pad actually happened; "
        "distinct = distinct (workload, input) signatures.")
ASSUMPTIONS = ["contents of rich/_cell_widths.py CELL_WIDTHS are the Unicode width table (trusted data)",
               "reference width = independent linear walk over that table"]
REQUIRED = ["mon.threshold_sizes", "mon.get_line_length", "mon.result_poisoning", "mon.codepoint", "mon.codepoint_orders", "mon.cell_len", "mon.cache_history", "mon.set_cell_size",
            "mon.chop_cells", "mon.adjust_line_length", "mon.split_and_crop", "mon.set_shape",
            "mon.simplify", "mon.split_lines", "mon.incremental_consumer"]
MIN_NONTRIVIAL = {"quick": 2000, "thorough": 20000}
EXHAUSTIVE = {"quick": False, "thorough": False}


def _mods():
    from rich import cells, segment, style
    return cells, segment, style


# ----------------------------------------------------------------------------------------
def wl_codepoints(ctx):
    cells, _, _ = _mods()
    from rich._cell_widths import CELL_WIDTHS
    # table structure (checked once, shard 0)
    if ctx.shard == 0:
        prev_end = -1
        for start, end, w in CELL_WIDTHS:
            ctx.count("mon.table_row")
            if not (start <= end and start > prev_end and w in (-1, 0, 1, 2)):
                ctx.violation("width-table-not-sorted-disjoint", {"row": (start, end, w)})
            prev_end = end
    get = cells.get_character_cell_size
    n = 0
    total = 0x110000
    lo = total * ctx.shard // ctx.nshards
    hi = total * (ctx.shard + 1) // ctx.nshards
    # the dense reference is itself spot-checked against the literal scan
    for cp in range(lo, hi):
        ch = chr(cp)
        ref = cellref.char_width(ch)
        if cp % 257 == 0 and cellref.table_scan(cp) != ref:
            ctx.violation("harness-dense-table-mismatch", {"cp": cp})
        got = get(ch)
        n += 1
        if got != ref:
            ctx.violation("codepoint-width-mismatch", {"cp": hex(cp), "got": got, "ref": ref})
        # second lookup (now cached) must agree as well
        if cp % 7 == 0 and get(ch) != ref:
            ctx.violation("codepoint-width-cached-mismatch", {"cp": hex(cp)})
    # the same range again in DESCENDING order (the 4096-entry cache holds almost none of it): a lookup must not
    # depend on which neighbour was looked up just before
    for cp in range(hi - 1, lo - 1, -1):
        ch = chr(cp)
        if get(ch) != cellref.char_width(ch):
            ctx.violation("codepoint-width-depends-on-lookup-order", {"cp": hex(cp), "got": get(ch),
                                                                     "ref": cellref.char_width(ch), "order": "descending"})
            break
    n += hi - lo
    # every order of the four code points around each table-range boundary, from an empty cache each time
    import itertools
    clear = getattr(cells._get_codepoint_cell_size, "cache_clear", None)
    rows = [r for i, r in enumerate(CELL_WIDTHS) if i % ctx.nshards == ctx.shard]
    for start, end, _w in rows:
        pts = sorted({p for p in (start - 1, start, end, end + 1) if 0 <= p < 0x110000})
        for order in itertools.permutations(pts):
            if clear is not None:
                clear()
            for cp in order:
                ch = chr(cp)
                got = get(ch)
                n += 1
                if got != cellref.char_width(ch):
                    ctx.violation("codepoint-width-depends-on-lookup-order",
                                  {"cp": hex(cp), "got": got, "ref": cellref.char_width(ch),
                                   "order": [hex(x) for x in order]})
                    break
    ctx.count("mon.codepoint_orders", len(rows))
    ctx.count("mon.codepoint", n)
    ctx.mark_exhaustive("codepoints", n)
    ctx.evaluations += n
    ctx.hist("codepoint_width", "checked", n)


def wl_cell_len(ctx, rng, case_no):
    cells, _, _ = _mods()
    w = S.pick_weights(rng)
    r = rng.random()
    if r < 0.2:
        s = S.sparse_odd_string(rng, 1, 200)      # both sides of any length threshold
    else:
        s = S.free_string(rng, 80 if r < 0.9 else 700, w, space=0.1, newline=0.02, tab=0.02)
    ref = cellref.width(s)
    got = cells.cell_len(s)
    ctx.count("mon.cell_len")
    if got != ref:
        ctx.violation("cell_len-mismatch", {"s": s, "got": got, "ref": ref})
    got2 = cells.cell_len(s)
    if got2 != ref:
        ctx.violation("cell_len-cached-mismatch", {"s": s, "got": got2, "ref": ref})
    ctx.hist("string_len", min(len(s) // 16 * 16, 128))
    ctx.case_done(("cl", s), any(cellref.char_width(c) != 1 for c in s), {"string": s, "cells": ref})


def wl_cache_history(ctx, rng, case_no):
    """History independence: the same strings measured in shuffled orders, interleaved with floods
    that evict both the string cache (4096 entries) and the code-point cache (4096 entries)."""
    cells, _, _ = _mods()
    w = S.pick_weights(rng)
    pool = [S.free_string(rng, rng.choice([3, 10, 64, 65, 80]), w, space=0.1) for _ in range(300)]
    refs = [cellref.width(s) for s in pool]
    bad = 0
    for rnd in range(4):
        order = list(range(len(pool)))
        rng.shuffle(order)
        flood_at = set(rng.sample(range(len(pool)), 2))
        for k, i in enumerate(order):
            got = cells.cell_len(pool[i])
            ctx.count("mon.cache_history")
            if got != refs[i]:
                bad += 1
                ctx.violation("cell_len-history-dependent",
                              {"s": pool[i], "got": got, "ref": refs[i], "round": rnd})
            if k in flood_at:
                kind = rng.random()
                if kind < 0.5:
                    base = rng.randrange(1 << 30)
                    for j in range(4200):
                        cells.cell_len("%x" % (base + j))
                    ctx.count("string_cache_floods")
                else:
                    start = rng.randrange(0x100, 0x2F000)
                    for cp in range(start, start + 4200):
                        ch = chr(cp)
                        if cells.get_character_cell_size(ch) != cellref.char_width(ch):
                            ctx.violation("codepoint-width-mismatch", {"cp": hex(cp)})
                    ctx.count("codepoint_cache_floods")
    # related strings: prefixes / extensions / permutations of one another, measured right after each other in
    # both orders - a cache keyed by anything coarser than the string itself returns a neighbour's answer
    for _ in range(20):
        base = S.free_string(rng, rng.choice([8, 40, 63, 64, 65, 80]), w, space=0.1, min_len=4)
        family = {base}
        for _ in range(6):
            k = rng.randint(1, len(base))
            family.add(base[:k])
            family.add(base[k:])
            family.add(base[:k] + S.rand_char(rng, w) + base[k:])
            family.add(base + S.rand_char(rng, w))
        family.add(base[::-1])
        family.add(base.swapcase())
        family = [f for f in family if f]
        for order in (sorted(family, key=len), sorted(family, key=len, reverse=True)):
            for f in order:
                got = cells.cell_len(f)
                ctx.count("mon.cache_history")
                if got != cellref.width(f):
                    ctx.violation("cell_len-history-dependent", {"s": f, "got": got, "ref": cellref.width(f),
                                                                 "after_measuring": "a related string (prefix/extension)"})
                    break
    ctx.case_done(("hist", tuple(pool[:5])), True, {"pool_size": len(pool), "first": pool[:3]})


def wl_set_cell_size(ctx, rng, case_no):
    cells, _, _ = _mods()
    w = S.pick_weights(rng)
    if rng.random() < 0.4:
        s = S.sparse_odd_string(rng, 40, 200)
    else:
        s = S.free_string(rng, rng.choice([5, 20, 60, 150]), w, space=0.1)
    total = cellref.width(s)
    cut_wide = 0
    ctx.hist("set_cell_size_string_len", min(len(s) // 32 * 32, 256))
    for n in sorted(set(range(0, 101)) | set(range(max(total - 3, 0), total + 4))):
        out = cells.set_cell_size(s, n)
        ctx.count("mon.set_cell_size")
        ok = cellref.width(out) == n
        # prefix of s followed only by spaces
        body = out.rstrip(" ")
        if ok and not (s.startswith(body) or s.rstrip(" ").startswith(body)):
            ok = False
        if not ok:
            ctx.violation("set_cell_size-wrong", {"s": s, "n": n, "out": out,
                                                  "out_cells": cellref.width(out)})
            break
        if n < total and out.endswith(" ") and not s[:len(out)].endswith(" "):
            cut_wide += 1
    ctx.hist("set_cell_size_cut_wide", "yes" if cut_wide else "no")
    ctx.case_done(("scs", s), total > 0 and any(cellref.char_width(c) != 1 for c in s),
                  {"string": s, "cells": total, "wide_cut_targets": cut_wide})


def wl_chop_cells(ctx, rng, case_no):
    cells, _, _ = _mods()
    w = S.pick_weights(rng)
    if rng.random() < 0.15:
        s = S.sparse_odd_string(rng, 40, 200)
    else:
        s = S.free_string(rng, rng.choice([5, 20, 60, 150]), w, space=0.1)
    width = rng.choice([2, 2, 3, 4, 5, 8, 13, 40, 70])
    position = rng.randint(0, width) if rng.random() < 0.5 else 0
    pieces = cells.chop_cells(s, width, position=position)
    ctx.count("mon.chop_cells")
    if rng.random() < 0.3:
        call_poison_call(ctx, "chop_cells", lambda: cells.chop_cells(s, width, position=position), list,
                         {"s": s, "width": width, "pos": position})
        pieces = cells.chop_cells(s, width, position=position)
    if "".join(pieces) != s:
        ctx.violation("chop_cells-not-concat", {"s": s, "width": width, "pos": position,
                                                "pieces": pieces})
    for i, p in enumerate(pieces):
        limit = width - position if i == 0 else width
        if cellref.width(p) > max(limit, 0) and not (i == 0 and p == ""):
            # a first piece may legitimately be empty when nothing fits after `position`
            ctx.violation("chop_cells-piece-too-wide", {"s": s, "width": width, "pos": position,
                                                        "pieces": pieces, "index": i})
            break
    # greedy: piece i+1's first character would not have fitted on piece i
    for i in range(len(pieces) - 1):
        limit = width - position if i == 0 else width
        nxt = pieces[i + 1][:1]
        if nxt and cellref.width(pieces[i]) + cellref.width(nxt) <= limit:
            ctx.violation("chop_cells-not-greedy", {"s": s, "width": width, "pos": position,
                                                    "pieces": pieces, "index": i})
            break
    ctx.case_done(("chop", s, width, position), len(pieces) > 1,
                  {"string": s, "width": width, "position": position, "pieces": pieces})


# ----------------------------------------------------------------------------------------
def _styles():
    _, _, style = _mods()
    Style = style.Style
    # (fresh objects on every call; the two link styles are EQUAL - same attributes, same URL - but distinct objects
    # with link ids of their own: the id goes out to the terminal, a style handed back "because it compares equal"
    # is not the style that was asked for)
    return [None, None, Style(), Style(bold=True), Style(color="red"),
            Style(bgcolor="blue", italic=True), Style(color="#102030", underline=True),
            Style(link="https://example.org/a"), Style(link="https://example.org/a"),
            Style(bold=True, link="https://example.org/b")]


def _same_style(a, b):
    """Identity of what gets written: equal styles with different link ids are different styles."""
    if a is b:
        return True
    if a is None or b is None:
        return False
    return a == b and getattr(a, "link_id", None) == getattr(b, "link_id", None) and \
        getattr(a, "link", None) == getattr(b, "link", None)


def _same_item(x, y):
    return len(x) == len(y) and x[:-1] == y[:-1] and _same_style(x[-1], y[-1])


def _rand_segments(rng, newlines=True, controls=True, oddities=False):
    _, segment, _ = _mods()
    Segment = segment.Segment
    styles = _styles()
    w = S.pick_weights(rng)
    segs = []
    for _ in range(rng.randint(0, 8)):
        r = rng.random()
        if controls and r < 0.12:
            segs.append(Segment.control(rng.choice(["\x1b[1A", "\x07", "\x1b[2K", "\r"])))
            continue
        t = S.free_string(rng, rng.choice([0, 1, 3, 8, 15]), w, space=0.15,
                          newline=0.12 if newlines else 0.0)
        if oddities and t and rng.random() < 0.25:
            # characters str.splitlines() breaks at although they are not line feeds (a segment is split at "\n" only)
            k = rng.randint(0, len(t))
            t = t[:k] + rng.choice(S.SEPARATOR_ODDITIES + ["\r", "\r\n", "\x0b", "\x0c", "\n\r"]) + t[k:]
        segs.append(Segment(t, rng.choice(styles)))
    return segs


def _flat(segs):
    out = []
    for text, style, ctrl in segs:
        if ctrl:
            out.append(("CTRL", text, style))
        else:
            out.extend((ch, style) for ch in text)
    return out


def _line_cells(line):
    return sum(cellref.width(t) for t, _, c in line if not c)


def _seg_repr(segs):
    return [(s.text, str(s.style) if s.style is not None else None, s.is_control) for s in segs]


def _check_line(ctx, name, src_items, out_line, length, pad, pad_style, src_cells, witness):
    """out_line must be: a prefix of src (by visible characters; control items kept in place up
    to the cut), optionally one space standing in for half of a cut wide character, then padding
    (spaces in the requested style)."""
    got = _line_cells(out_line)
    if src_cells >= length or pad:
        want = length
    else:
        want = src_cells
    if got != want:
        ctx.violation(name + "-wrong-length", dict(witness, got_cells=got, want_cells=want))
        return
    out_items = _flat(out_line)
    i = 0
    n_src = len(src_items)
    for j, item in enumerate(out_items):
        if i < n_src and _same_item(item, src_items[i]):
            i += 1
            continue
        # remaining items must be filler: either half-of-wide replacement or padding
        rest = out_items[j:]
        if any(it[0] != " " for it in rest):
            ctx.violation(name + "-content-changed", dict(witness, at=j))
            return
        if src_cells < length:
            # pure padding: must carry the requested style
            for it in rest:
                if not _same_style(it[1], pad_style):
                    ctx.violation(name + "-pad-style" + ("" if it[1] != pad_style else ":equal-style-with-another-link-id"), dict(
                        witness, pad_style_seen=str(it[1]), pad_style_wanted=str(pad_style)))
                    return
        else:
            if len(rest) > 1:
                ctx.violation(name + "-content-changed", dict(witness, at=j, extra=len(rest)))
                return
        break


def wl_adjust(ctx, rng, case_no):
    _, segment, _ = _mods()
    Segment = segment.Segment
    line = [s for s in _rand_segments(rng, newlines=False)]
    src_cells = _line_cells(line)
    length = rng.choice([0, 1, 2, 3, 5, 8, max(0, src_cells - 1), src_cells, src_cells + 1,
                         src_cells + 7])
    pad = rng.random() < 0.7
    pad_style = rng.choice(_styles())
    src_items = _flat(line)
    keep = list(line)
    if rng.random() < 0.3:
        call_poison_call(ctx, "adjust_line_length",
                         lambda: Segment.adjust_line_length(list(line), length, style=pad_style, pad=pad),
                         _seg_repr, {"line": _seg_repr(keep), "length": length, "pad": pad})
    out = Segment.adjust_line_length(line, length, style=pad_style, pad=pad)
    ctx.count("mon.adjust_line_length")
    if line != keep:
        ctx.violation("adjust_line_length-mutates-input", {"line": _seg_repr(keep)})
    wit = {"line": _seg_repr(keep), "length": length, "pad": pad, "pad_style": str(pad_style),
           "out": _seg_repr(out)}
    _check_line(ctx, "adjust_line_length", src_items, out, length, pad, pad_style, src_cells, wit)
    kind = "crop" if src_cells > length else ("pad" if src_cells < length and pad else "same")
    ctx.hist("adjust_kind", kind)
    ctx.case_done(("adj", tuple(_seg_repr(keep)), length, pad, str(pad_style)), kind != "same", wit)


def _ref_split(segs):
    """Reference line split of a segment list: list of lists of flat items; control items are
    atomic and never split.  A trailing line exists when any segment (even an empty one) follows
    the last newline - an empty trailing line list is harmless and not asserted either way, so it
    is mirrored here rather than judged."""
    lines, cur = [], []
    open_line = False
    for text, style, ctrl in segs:
        if ctrl or "\n" not in text:
            open_line = True
            if ctrl:
                cur.append(("CTRL", text, style))
            else:
                cur.extend((ch, style) for ch in text)
            continue
        for ch in text:
            if ch == "\n":
                lines.append(cur)
                cur = []
                open_line = False
            else:
                cur.append((ch, style))
                open_line = True
    if open_line:
        lines.append(cur)
    return lines


def wl_split_crop(ctx, rng, case_no):
    _, segment, _ = _mods()
    Segment = segment.Segment
    segs = _rand_segments(rng)
    length = rng.choice([0, 1, 2, 3, 5, 8, 13, 30])
    pad = rng.random() < 0.7
    pad_style = rng.choice(_styles())
    incl = rng.random() < 0.5
    ref_lines = _ref_split(segs)
    if rng.random() < 0.3:
        call_poison_call(ctx, "split_and_crop_lines",
                         lambda: list(Segment.split_and_crop_lines(list(segs), length, style=pad_style, pad=pad,
                                                                   include_new_lines=incl)),
                         lambda r: [_seg_repr(l) for l in r], {"segments": _seg_repr(segs), "length": length})
    if rng.random() < 0.3:
        # a consumer that takes the lines one at a time and edits each in place before asking for the next (decorates
        # it, trims it, re-uses the list): what it is handed later must not depend on what it did to what it was
        # handed earlier
        taken = []
        for line in Segment.split_and_crop_lines(list(segs), length, style=pad_style, pad=pad, include_new_lines=incl):
            taken.append(list(line))
            if isinstance(line, list):
                how = rng.random()
                if how < 0.4:
                    del line[:]
                elif how < 0.8:
                    line.insert(0, Segment("POISON| "))
                else:
                    line.append(Segment("poison"))
        ctx.count("mon.incremental_consumer")
        calm = [list(l) for l in Segment.split_and_crop_lines(list(segs), length, style=pad_style, pad=pad,
                                                              include_new_lines=incl)]
        if [_seg_repr(l) for l in taken] != [_seg_repr(l) for l in calm]:
            ctx.violation("split_and_crop-lines-depend-on-what-the-consumer-did-to-earlier-lines",
                          {"segments": _seg_repr(segs), "length": length, "pad": pad, "include_new_lines": incl,
                           "handed_out": [_seg_repr(l) for l in taken], "undisturbed": [_seg_repr(l) for l in calm]})
    out = [list(l) for l in Segment.split_and_crop_lines(
        list(segs), length, style=pad_style, pad=pad, include_new_lines=incl)]
    ctx.count("mon.split_and_crop")
    wit = {"segments": _seg_repr(segs), "length": length, "pad": pad, "pad_style": str(pad_style),
           "include_new_lines": incl, "out": [_seg_repr(l) for l in out]}
    if len(out) != len(ref_lines):
        ctx.violation("split_and_crop-line-count", dict(wit, want_lines=len(ref_lines)))
    else:
        cropped = padded = 0
        for ref, line in zip(ref_lines, out):
            if incl and line and line[-1].text == "\n" and not line[-1].is_control:
                line = line[:-1]
            src_cells = sum(cellref.char_width(it[0]) for it in ref if it[0] != "CTRL")
            cropped += src_cells > length
            padded += src_cells < length and pad
            _check_line(ctx, "split_and_crop", ref, line, length, pad, pad_style, src_cells, wit)
        ctx.hist("split_crop", "crop" if cropped else ("pad" if padded else "same"))
    ctx.case_done(("sc", tuple(_seg_repr(segs)), length, pad, str(pad_style), incl),
                  len(ref_lines) >= 1, wit)


def wl_set_shape(ctx, rng, case_no):
    _, segment, _ = _mods()
    Segment = segment.Segment
    lines = [_rand_segments(rng, newlines=False) for _ in range(rng.randint(0, 4))]
    width = rng.choice([0, 1, 2, 3, 5, 8, 13])
    height = rng.choice([None, len(lines), len(lines) + 1, len(lines) + 3])
    pad_style = rng.choice(_styles())
    if rng.random() < 0.3:
        call_poison_call(ctx, "set_shape",
                         lambda: Segment.set_shape([list(l) for l in lines], width, height, style=pad_style),
                         lambda r: [_seg_repr(l) for l in r], {"lines": [_seg_repr(l) for l in lines], "width": width})
    out = Segment.set_shape([list(l) for l in lines], width, height, style=pad_style)
    ctx.count("mon.set_shape")
    wit = {"lines": [_seg_repr(l) for l in lines], "width": width, "height": height,
           "pad_style": str(pad_style), "out": [_seg_repr(l) for l in out]}
    want_h = len(lines) if height is None else height
    if len(out) != want_h:
        ctx.violation("set_shape-height", dict(wit, want=want_h))
    # the measuring helpers agree with the reference on the inputs (control segments occupy no cells) ...
    for l in lines:
        ctx.count("mon.get_line_length")
        ref = sum(cellref.char_width(it[0]) for it in _flat(l) if it[0] != "CTRL")
        if Segment.get_line_length(list(l)) != ref:
            ctx.violation("get_line_length-wrong", dict(wit, line=_seg_repr(l), got=Segment.get_line_length(list(l)), want=ref))
    if lines:
        ref_w = max(sum(cellref.char_width(it[0]) for it in _flat(l) if it[0] != "CTRL") for l in lines)
        if Segment.get_shape([list(l) for l in lines]) != (ref_w, len(lines)):
            ctx.violation("get_shape-wrong", dict(wit, got=Segment.get_shape([list(l) for l in lines]), want=(ref_w, len(lines))))
    # ... and report the requested shape for the shaped output
    if out and want_h:
        if Segment.get_shape(out) != (width, want_h):
            ctx.violation("get_shape-of-shaped-lines-is-not-the-shape", dict(wit, got=Segment.get_shape(out)))
    for i, line in enumerate(out):
        src = _flat(lines[i]) if i < len(lines) else []
        src_cells = sum(cellref.char_width(it[0]) for it in src if it[0] != "CTRL")
        _check_line(ctx, "set_shape", src, line, width, True, pad_style, src_cells, wit)
    ctx.case_done(("shape", tuple(tuple(_seg_repr(l)) for l in lines), width, height,
                   str(pad_style)), bool(lines) or (height or 0) > 0, wit)


def wl_simplify_split(ctx, rng, case_no):
    _, segment, _ = _mods()
    Segment = segment.Segment
    segs = _rand_segments(rng, oddities=True)
    # simplify: same per-character (char, style) sequence, control segments stay apart
    out = list(Segment.simplify(list(segs)))
    ctx.count("mon.simplify")
    wit = {"segments": _seg_repr(segs), "out": _seg_repr(out)}
    a = [it for it in _flat(segs)]
    b = [it for it in _flat(out)]
    # empty non-control segments vanish harmlessly; compare flat sequences
    if a != b:
        mech = "simplify-changes-content"
        ctrl_a = [it for it in a if it[0] == "CTRL"]
        ctrl_b = [it for it in b if it[0] == "CTRL"]
        if ctrl_a != ctrl_b:
            mech = "simplify-merges-control-segment"
        ctx.violation(mech, wit)
    # split_lines: rejoining gives the input back
    if rng.random() < 0.3:
        call_poison_call(ctx, "split_lines", lambda: list(Segment.split_lines(list(segs))),
                         lambda r: [_seg_repr(l) for l in r], {"segments": _seg_repr(segs)})
    lines = [list(l) for l in Segment.split_lines(list(segs))]
    ctx.count("mon.split_lines")
    ref = _ref_split(segs)
    got = [_flat(l) for l in lines]
    if got != ref:
        ctx.violation("split_lines-not-rejoinable", dict(wit, lines=[_seg_repr(l) for l in lines]))
    ctx.case_done(("simp", tuple(_seg_repr(segs))), len(segs) >= 2, wit)


def wl_threshold_sizes(ctx, rng, case_no):
    """Sizes on both sides of the powers of two at which an implementation might switch strategy (256, 1024, 4096,
    65536): very long single tokens and very long lines through the same oracles as the small ones."""
    cells, segment, _ = _mods()
    Segment = segment.Segment
    n = rng.choice([255, 256, 257, 1023, 1024, 1025, 1500, 4095, 4096, 4097, 5000, 9000, 65537])
    kind = rng.choice(["ascii", "wide", "balanced", "balanced", "sparse"])
    if kind == "ascii":
        s = "".join(rng.choice(S.ASCII_LETTERS) for _ in range(n))
    elif kind == "wide":
        s = "".join(rng.choice(S.WIDE[:50]) for _ in range(n))
    elif kind == "balanced":
        # as many double-width as zero-width characters: cell length == character count although no prefix need fit
        half = [rng.choice(S.WIDE[:50]) for _ in range(n // 4)] + [rng.choice(S.ZERO[:20]) for _ in range(n // 4)]
        rest = [rng.choice(S.ASCII_LETTERS) for _ in range(n - len(half))]
        if rng.random() < 0.5:
            half.sort(key=lambda c: cellref.char_width(c), reverse=True)     # all the wide ones first
            s = "".join(half + rest)
        else:
            chars = half + rest
            rng.shuffle(chars)
            s = "".join(chars)
    else:
        s = S.sparse_odd_string(rng, n, n)
    ref = cellref.width(s)
    wit = {"length": n, "kind": kind, "head": s[:40]}
    ctx.count("mon.threshold_sizes")
    if cells.cell_len(s) != ref:
        ctx.violation("cell_len-mismatch:long-string", dict(wit, got=cells.cell_len(s), ref=ref))
    for total in sorted({0, 1, ref - 1, ref, ref + 1, ref // 2, rng.randint(0, ref + 10)}):
        if total < 0:
            continue
        out = cells.set_cell_size(s, total)
        if cellref.width(out) != total or not s.startswith(out.rstrip(" ")):
            ctx.violation("set_cell_size-wrong:long-string", dict(wit, total=total, out_cells=cellref.width(out)))
            break
    for width in (2, 3, rng.choice([7, 40, 80]), rng.choice([255, 1024])):
        pieces = cells.chop_cells(s, width)
        if "".join(pieces) != s:
            ctx.violation("chop_cells-not-concat:long-token", dict(wit, width=width))
            break
        bad = [i for i, p in enumerate(pieces) if cellref.width(p) > width]
        if bad:
            ctx.violation("chop_cells-piece-too-wide:long-token",
                          dict(wit, width=width, index=bad[0], piece_cells=cellref.width(pieces[bad[0]])))
            break
    # a short line padded / cropped to a very long length, and a very long line cropped
    line = [Segment(s[: rng.choice([0, 3, 11])]), Segment("x", None)]
    src = sum(cellref.width(x.text) for x in line)
    for length in (n, n + 7):
        out = Segment.adjust_line_length(list(line), length, pad=True)
        got = sum(cellref.width(x.text) for x in out if not x.is_control)
        if got != length:
            ctx.violation("adjust_line_length-wrong-length:long-line", dict(wit, length=length, got=got, source_cells=src))
            break
    long_line = [Segment(s)]
    for length in (max(0, ref - 5), ref // 2, 4096, 4097):
        out = Segment.adjust_line_length(list(long_line), length, pad=True)
        got = sum(cellref.width(x.text) for x in out if not x.is_control)
        if got != length:
            ctx.violation("adjust_line_length-wrong-length:long-line", dict(wit, length=length, got=got, source_cells=ref))
            break
    shaped = Segment.set_shape([list(line)], n, 2)
    if [sum(cellref.width(x.text) for x in l) for l in shaped] != [n, n]:
        ctx.violation("set_shape-wrong-length:long-line", dict(wit, widths=[sum(cellref.width(x.text) for x in l) for l in shaped]))
    ctx.case_done(("thr", n, kind, s[:60]), True, wit)


def wl_repo_suite_under_contracts(ctx):
    """The repository's own test-suite as a workload: 440 realistic call sequences run with the contract catalogue
    (rv/monitor/contracts.py) installed on the real functions, so every nested call is checked."""
    if ctx.shard != 0:
        return
    import json
    import os
    import subprocess
    import sys
    import tempfile
    from rv.core import env
    tests = os.path.join(env.REPO, "tests")
    if not os.path.isdir(tests):
        ctx.count("repo_suite_skipped_no_tests_dir")
        return
    fd, path = tempfile.mkstemp(prefix="rv-contracts-", suffix=".json")
    os.close(fd)
    try:
        e = dict(os.environ, RV_CONTRACT_REPORT=path, PYTHONPATH=env.VERIF + os.pathsep + env.REPO)
        r = subprocess.run([sys.executable, "-B", "-m", "pytest", "-q", "-p", "no:cacheprovider", "-p",
                            "rv.monitor.pytest_plugin", "--timeout=900", "-x", "-q", tests, "--deselect", "none",
                            "-o", "addopts=", "--continue-on-collection-errors", "--maxfail=1000"],
                           cwd=env.REPO, env=e, capture_output=True, text=True, timeout=1200)
        try:
            rep = json.load(open(path))
        except Exception:
            ctx.mark_inconclusive("contract report not written: %s" % r.stdout[-300:])
            return
    finally:
        try:
            os.unlink(path)
        except OSError:
            pass
    for name, n in rep.get("evaluations", {}).items():
        ctx.count("contract:" + name, n)
    ctx.evaluations += sum(rep.get("evaluations", {}).values())
    for v in rep.get("violations", []):
        ctx.violation("contract-broken-under-repo-suite:" + v["contract"].split(":")[0], v)


def workloads(tier):
    big = tier == "thorough"
    return [
        WL("codepoints", wl_codepoints, kind="custom"),
        WL("cell_len", wl_cell_len, 400000 if big else 30000),
        WL("cache_history", wl_cache_history, 1600 if big else 64),
        WL("set_cell_size", wl_set_cell_size, 120000 if big else 10000),
        WL("chop_cells", wl_chop_cells, 400000 if big else 30000),
        WL("adjust_line_length", wl_adjust, 400000 if big else 30000),
        WL("split_and_crop_lines", wl_split_crop, 300000 if big else 20000),
        WL("set_shape", wl_set_shape, 200000 if big else 10000),
        WL("simplify_split_lines", wl_simplify_split, 300000 if big else 20000),
        WL("threshold_sizes", wl_threshold_sizes, 6000 if big else 400),
        WL("repo_suite_under_contracts", wl_repo_suite_under_contracts, kind="custom"),
    ]

LEVEL_TEXT = ("Runs the real rich.cells and Segment helpers; get_character_cell_size is compared with a "
              "linear scan of the width table on ALL 1,114,112 code points in every run (exhaustive "
              "slice); strings, cache histories with forced eviction of both caches, every target "
              "size 0..100 and random styled segment lists are explored by seeded generation. Held "
              "means: no mismatch on the cases produced.")
LEVEL_NOTE = ("Trusted: the contents of rich/_cell_widths.py (data), CPython. The reference width is an "
              "independent linear walk over the table, not the binary search / caches under test.")
TECHNIQUE = "runtime monitoring: reference-model oracle (linear width-table scan) over exhaustive code points + generated strings/segment lists with cache-eviction histories"
