"""C14 - no input makes the pipeline fail with an undocumented error."""
import io
import itertools
import json
import signal

from rv.core.runner import WL, exc_mechanism
from rv.gen import specs as SP
from rv.gen import strings as S
from rv.model import consoles

ID = "C14"
LEVEL = "exploration"
RULE = ("(1) exhaustive concatenations of syntax-significant tokens up to 4 (quick) / 5 (thorough) tokens per parser "
        "(Color.parse, Style.parse, Console.get_style, markup render, AnsiDecoder); (2) random Unicode strings incl. "
        "astral characters, C0/C1 controls, non-ASCII digits and lone surrogates fed to every entry point incl. Text() "
        "and Console.print(markup=False); (3) renderable trees with valid options - including fixed column widths, "
        "no_wrap, overflow=ignore, zero-column tables, Columns(width=...), empty containers - rendered and measured at "
        "widths 1..5, random widths and 80/200, i.e. far below the structural minimum. Non-trivial: the entry point "
        "raised its documented error or the tree was rendered below its structural minimum; distinct by input.")
ASSUMPTIONS = ["options stay inside their documented domains (Bar.size > 0, ProgressBar.total >= 0, counts >= 0)",
               "a per-case watchdog (10 s) firing is inconclusive, not a violation"]
REQUIRED = ["mon.other_renderable", "mon.highlighted_render", "mon.highlight_style_defined", "mon.color_parse", "mon.style_parse", "mon.get_style", "mon.markup", "mon.ansi_decode", "mon.text_ctor",
            "mon.print_no_markup", "mon.tree_render", "mon.tree_measure"]
MIN_NONTRIVIAL = {"quick": 5000, "thorough": 200000}

COLOR_TOKENS = ["rgb(", ",", ")", "#", "ff", "0", "255", "256", "color(", "٣", "³", "４", " ", "red", "default",
                "1,2,3", "-", "g",
                # everything Python's regex class \s matches but int() may not skip, and other blanks
                "\x1c", "\x1f", "\t", "\n", "\xa0", "\u3000", "\x85", "\u2028", "1,2,", "+1", "1_0"]
STYLE_TOKENS = ["bold", "not", "on", "link", "red", "#ff0000", "rgb(1,2,3)", "color(1)", " ", "x", "b", "none",
                "rgb(", ")", "٣", "NOT", "default", ","]
MARKUP_TOKENS = ["[", "]", "/", "\\", "=", "bold", "red", "link", " ", "a", "[/]", "[b]", "#", ":", "\n", "[/red]"]
ANSI_TOKENS = ["\x1b", "[", ";", "m", "38", "5", "2", "]8;", "\x1b\\", "0", "³", "٣", "a", "\n", "\r", "?", "K",
               "255", "999999999999"]


class Timeout(Exception):
    pass


def _alarm(signum, frame):
    raise Timeout()


def guarded(ctx, name, allowed, fn, witness):
    """Run fn; any exception outside `allowed` is the refuting event."""
    ctx.count("mon." + name)
    try:
        fn()
        return "ok"
    except allowed as e:
        return type(e).__name__
    except Timeout:
        raise
    except Exception as e:
        ctx.violation("%s:%s" % (name, exc_mechanism(e)), dict(witness, error=repr(e)))
        return "VIOLATION"


def feed_parsers(ctx, s, which=None):
    from rich import errors, markup
    from rich.ansi import AnsiDecoder
    from rich.color import Color, ColorParseError
    from rich.style import Style
    from rich.text import Text
    out = {}
    wit = {"input": s}
    if which in (None, "color"):
        out["color"] = guarded(ctx, "color_parse", (ColorParseError,), lambda: Color.parse.__wrapped__(Color, s), wit)
    if which in (None, "style"):
        out["style"] = guarded(ctx, "style_parse", (errors.StyleSyntaxError,),
                               lambda: Style.parse.__wrapped__(Style, s), wit)
        out["get_style"] = guarded(ctx, "get_style", (errors.MissingStyle,), lambda: _console().get_style(s), wit)
    if which in (None, "markup"):
        out["markup"] = guarded(ctx, "markup", (errors.MarkupError,), lambda: markup.render(s), wit)
        out["from_markup"] = guarded(ctx, "markup", (errors.MarkupError,), lambda: Text.from_markup(s), wit)
    if which in (None, "ansi"):
        out["ansi"] = guarded(ctx, "ansi_decode", (), lambda: list(AnsiDecoder().decode(s)), wit)
        out["ansi_line"] = guarded(ctx, "ansi_decode", (), lambda: AnsiDecoder().decode_line(s), wit)
    if which in (None, "text"):
        out["text"] = guarded(ctx, "text_ctor", (), lambda: (Text(s), len(Text(s)), Text(s).plain), wit)

        def do_print():
            c = _print_console()
            # (the print options a program may pass along: none of them licenses an exception either)
            _pc_turn[1] += 1
            c.print(s, markup=False, justify=(None, None, "left", "full", "center", None, "right")[_pc_turn[1] % 7])
            if hasattr(c.file, "truncate"):
                c.file.seek(0)
                c.file.truncate()
        out["print"] = guarded(ctx, "print_no_markup", (), do_print, wit)
    return out


_c = None
_pc = None


def _console():
    global _c
    if _c is None:
        from rich.console import Console
        _c = Console(file=io.StringIO(), _environ={})
    return _c


class _Sink:
    """The least a console's file has to be: something with write() and flush() (no isatty, no encoding, no fileno)."""

    def write(self, text):
        return len(text)

    def flush(self):
        pass


_pc_turn = [0, 0]


def _print_console():
    """Consoles of several kinds in rotation: "printing any string with markup disabled never raises" is promised for
    the console a program happens to have, not for one particular configuration."""
    global _pc
    if _pc is None:
        from rich.console import Console
        _pc = [Console(file=io.StringIO(), width=20, color_system="truecolor", force_terminal=True, _environ={},
                       legacy_windows=False),
               Console(file=io.StringIO(), width=20, _environ={}),                       # a detected non-terminal
               Console(file=_Sink(), width=20, _environ={}),                             # a duck-typed sink
               Console(file=io.StringIO(), width=7, color_system="standard", force_terminal=True, _environ={"TERM": "dumb"},
                       legacy_windows=True, safe_box=True, no_color=True, highlight=False),
               Console(file=io.StringIO(), width=20, soft_wrap=True, _environ={"NO_COLOR": "1"}),
               # a theme of the program's own that does not inherit the default styles (the highlighter's names are
               # then unknown: text stays unstyled, it is still printed)
               Console(file=io.StringIO(), width=12, theme=__import__("rich.theme").theme.Theme({"mine": "bold"}, inherit=False),
                       _environ={})]
    _pc_turn[0] += 1
    return _pc[_pc_turn[0] % len(_pc)]


def wl_tokens(ctx):
    maxlen = 5 if ctx.tier == "thorough" else 4
    k = 0
    n = 0
    signal.signal(signal.SIGALRM, _alarm)
    for which, tokens in (("color", COLOR_TOKENS), ("style", STYLE_TOKENS), ("markup", MARKUP_TOKENS),
                          ("ansi", ANSI_TOKENS)):
        limit = maxlen if which != "style" or ctx.tier == "thorough" else 4
        for length in range(0, limit + 1):
            for tup in itertools.product(tokens, repeat=length):
                k += 1
                if k % ctx.nshards != ctx.shard:
                    continue
                s = "".join(tup)
                signal.setitimer(signal.ITIMER_REAL, 10)
                try:
                    res = feed_parsers(ctx, s, which)
                except Timeout:
                    ctx.mark_inconclusive("watchdog fired on %s input %r" % (which, s))
                    continue
                finally:
                    signal.setitimer(signal.ITIMER_REAL, 0)
                n += 1
                if any(v not in ("ok", "VIOLATION") for v in res.values()):
                    ctx.nontrivial.add(k)
                    if n % 20011 == 1:
                        ctx.samples.setdefault("tokens", []).append({"parser": which, "input": s, "outcome": res})
        ctx.mark_exhaustive("tokens:%s<=%d" % (which, limit), 1)
    ctx.evaluations += n


def rand_unicode(rng):
    if rng.random() < 0.02:
        # numbers of absurd length where parsers convert digits (Python refuses int() beyond 4300 digits)
        digits = rng.choice(["1", "9", "0", "7"]) * rng.choice([12, 400, 4301, 6000])
        return rng.choice(["\x1b[%sm", "\x1b[1;%s;3mx", "\x1b[38;5;%smx", "\x1b[38;2;%s;0;0mx", "rgb(%s,1,1)", "color(%s)",
                           "#%s", "[rgb(1,%s,1)]x[/]", "on rgb(%s,0,0)", "\x1b]8;id=%s;http://x\x1b\\y"]) % digits
    n = rng.randint(0, 30)
    out = []
    for _ in range(n):
        r = rng.random()
        if r < 0.35:
            out.append(chr(rng.randrange(0x20, 0x7F)))
        elif r < 0.5:
            out.append(chr(rng.randrange(0, 0x20)))
        elif r < 0.55:
            out.append(chr(rng.randrange(0x7F, 0xA0)))
        elif r < 0.7:
            out.append(rng.choice(S.WIDE + S.ZERO + S.NARROW_UNI))
        elif r < 0.8:
            out.append(rng.choice("٠١٢٣٤٥٦٧٨٩³²¹４５𝟘𝟙"))
        elif r < 0.9:
            out.append(chr(rng.randrange(0x10000, 0x10FFFF)))
        elif r < 0.93:
            out.append(chr(rng.randrange(0xD800, 0xE000)))      # lone surrogate
        else:
            out.append(rng.choice(["[", "]", "\\", "\x1b[", "\x1b]8;;", "m", ";", "rgb(", ")", "#", "[/]", ":a:",
                                   " ", " ", "\x85"]))
    return "".join(out)


def wl_unicode(ctx, rng, case_no):
    s = rand_unicode(rng)
    signal.signal(signal.SIGALRM, _alarm)
    signal.setitimer(signal.ITIMER_REAL, 10)
    try:
        res = feed_parsers(ctx, s)
    except Timeout:
        ctx.mark_inconclusive("watchdog fired on unicode input %r" % s)
        return
    finally:
        signal.setitimer(signal.ITIMER_REAL, 0)
    ctx.case_done(("u", s), any(v != "ok" for v in res.values()) or any(ord(c) > 0x7F for c in s),
                  {"input": s, "outcome": res})


def tree_features(spec):
    f = set()

    def walk(s):
        k = s["k"]
        if k == "columns" and s.get("width") is not None:
            f.add("columns-with-fixed-width")
        if k == "columns" and not s["items"]:
            f.add("empty-columns")
        if k == "table":
            if not s["columns"]:
                f.add("zero-column-table" + ("-expand" if s["expand"] or s["width"] is not None else ""))
            if s["width"] is not None:
                f.add("table-width")
            for c in s["columns"]:
                walk(c["header"])
                walk(c["footer"])
            for r in s["rows"]:
                for c in r["cells"]:
                    walk(c)
        if k == "text" and s.get("overflow") == "ignore":
            f.add("text-overflow-ignore")
        if "child" in s:
            walk(s["child"])
        for key in ("children", "items"):
            for c in s.get(key, []):
                walk(c)
        if k == "tree":
            def tw(n):
                walk(n["label"])
                for c in n["children"]:
                    tw(c)
            tw(s["root"])
    walk(spec)
    return sorted(f)


def wl_trees(ctx, rng, case_no):
    from rich.measure import Measurement
    spec = SP.gen_spec(rng, depth=rng.choice([1, 2, 3, 4]), profile={"allow_fixed": True, "allow_ignore": True, "vcenter": True})
    m = SP.structural_min(spec)
    widths = sorted({1, 2, 3, 4, 5, 80, 200} | {rng.randint(1, 200) for _ in range(4)} |
                    {max(1, m - 1), max(1, m // 2)})
    feats = tree_features(spec)
    signal.signal(signal.SIGALRM, _alarm)
    for W in widths:
        wit = {"spec": spec, "width": W, "structural_min": m}
        console = consoles.layout_console(W, legacy=rng.random() < 0.15, ascii_only=rng.random() < 0.15)
        signal.setitimer(signal.ITIMER_REAL, 10)
        try:
            ctx.count("mon.tree_render")
            try:
                for _ in console.render(SP.build(spec), console.options):
                    pass
            except Timeout:
                raise
            except Exception as e:
                ctx.violation("tree_render:%s" % exc_mechanism(e), dict(wit, error=repr(e), features=feats))
            ctx.count("mon.tree_measure")
            try:
                Measurement.get(console, SP.build(spec), W)
            except Timeout:
                raise
            except Exception as e:
                ctx.violation("tree_measure:%s" % exc_mechanism(e), dict(wit, error=repr(e), features=feats))
        except Timeout:
            ctx.mark_inconclusive("watchdog fired rendering a tree at width %d" % W)
        finally:
            signal.setitimer(signal.ITIMER_REAL, 0)
        ctx.hist("width_vs_min", "below" if W < m else "at-or-above")
        ctx.case_done((json.dumps(spec, sort_keys=True, ensure_ascii=False, default=str), W), W < m,
                      {"spec": spec, "width": W, "m": m})


HIGHLIGHT_TOKENS = [
    "<Foo", "bar=1>", "<module 'os' from '/usr/lib/os.py'>", "name=value", "x=None", "key='v'",
    "127.0.0.1", "10.0.0.255", "2001:0db8:85a3:0000:0000:8a2e:0370:7334", "::1", "fe80::1ff:fe23:4567:890a",
    "01-23-45-FF-FE-67-89-AB", "0123.45FF.FE67.89AB", "1-2-3-4-5-6-7-8", "01:23:45:FF:FE:67:89:AB",
    "01-23-45-67-89-AB", "0123.4567.89AB", "01:23:45:67:89:AB",
    "{[()]}", "(", ")", "[1,", "2]", "True", "False", "None", "...", "123", "-1.5e10", "0x1F", "3+4j", "1_000",
    "/usr/local/bin/python", "/a/b.txt", "./rel/path.py", "C:\\dir\\file.txt", "file.tar.gz",
    "'single'", '"double"', "b'bytes'", "'it''s'", "123e4567-e89b-12d3-a456-426614174000",
    "https://example.org/a?b=c&d=e#f", "http://x.y", "file:///tmp/x", "print(", "a.b.c(", "word", "漢字", "=", "<>",
]


def wl_highlighted(ctx, rng, case_no):
    """Plain strings made of tokens that the default (repr) highlighter recognises - addresses, numbers, paths, tags,
    URLs, UUIDs ... - printed with highlighting on under every justify / overflow mode at widths that wrap them:
    every style name the highlighter attaches must resolve wherever the pipeline looks it up."""
    from rich.highlighter import ReprHighlighter
    from rich.panel import Panel
    from rich.table import Table
    from rich.text import Text
    toks = [rng.choice(HIGHLIGHT_TOKENS) for _ in range(rng.randint(1, 12))]
    sep = rng.choice([" ", " ", "  ", ", ", "\n"])
    s = sep.join(toks)
    W = rng.choice([1, 2, 5, 10, 20, 40, 80, rng.randint(1, 120)])
    justify = rng.choice(["default", "left", "center", "right", "full", "full"])
    overflow = rng.choice(["fold", "crop", "ellipsis", "ignore"])
    how = rng.choice(["print", "print", "print_nomarkup", "log", "panel", "table", "text_highlight"])
    wit = {"text": s, "width": W, "justify": justify, "overflow": overflow, "how": how}
    console = consoles.layout_console(W)
    # which styles does the highlighter attach here?  (observation for the evidence: groups exercised)
    for span in ReprHighlighter()(Text(s)).spans:
        ctx.hist("highlight_style_seen", str(span.style))

    def run():
        if how == "print":
            console.print(s, justify=justify, overflow=overflow, highlight=True)
        elif how == "print_nomarkup":
            console.print(s, justify=justify, overflow=overflow, highlight=True, markup=False, emoji=False)
        elif how == "log":
            console.log(s, justify=justify, highlight=True)
        elif how == "panel":
            console.print(Panel(ReprHighlighter()(Text(s, justify=justify, overflow=overflow))))
        elif how == "table":
            t = Table("h", highlight=True)
            t.add_column("c2", justify=justify, overflow=overflow)
            t.add_row(s, s)
            console.print(t)
        else:
            t = Text(s, justify=justify, overflow=overflow)
            ReprHighlighter().highlight(t)
            list(t.wrap(console, max(W, 1), justify=justify, overflow=overflow))
            console.print(t)
    signal.signal(signal.SIGALRM, _alarm)
    signal.setitimer(signal.ITIMER_REAL, 10)
    try:
        guarded(ctx, "highlighted_render", (), run, wit)
    except Timeout:
        ctx.mark_inconclusive("watchdog fired printing highlighted text")
    finally:
        signal.setitimer(signal.ITIMER_REAL, 0)
    ctx.hist("highlighted_how", "%s/%s" % (how, justify))
    ctx.case_done(("hl", s, W, justify, overflow, how), len(toks) >= 3, wit)


_tb_dir = [None]


def wl_other_renderables(ctx, rng, case_no):
    """The built-in renderables that are not layout containers: Traceback (frames from files of any name - scripts
    without a suffix, plug-in suffixes no lexer knows, missing files), Syntax (any lexer name), Pretty - rendered
    and measured at widths 1..200."""
    import os
    import shutil
    import sys
    import tempfile
    from rich.measure import Measurement
    from rich.pretty import Pretty
    from rich.syntax import Syntax
    from rich.traceback import Traceback
    kind = rng.choice(["traceback", "traceback", "syntax", "pretty"])
    wit = {"kind": kind}
    if kind == "traceback":
        if _tb_dir[0] is None:
            _tb_dir[0] = tempfile.mkdtemp(prefix="rv-c14-")
            import atexit
            atexit.register(shutil.rmtree, _tb_dir[0], True)
        name = rng.choice(["plugin", "script", "x.py", "x.pyx", "x.ipy", "x.unknownsuffix", "x.txt", "x.json", "Makefile",
                           "x.", ".hidden", "漢字.py", "with space.plug"])
        path = os.path.join(_tb_dir[0], "%d_%d_%s" % (os.getpid(), case_no % 5, name))
        src = "def f(x):\n    y = [x] * 3\n    return y[%d]\n\ndef g(x):\n\treturn f(x)\n" % rng.choice([7, -9])
        if rng.random() < 0.8:
            with open(path, "w", encoding="utf-8") as f:
                f.write(src)
        elif os.path.exists(path):
            os.unlink(path)          # the file of the frame does not exist (any more)
        ns = {}
        exec(compile(src, path, "exec"), ns)
        try:
            ns["g"](1)
        except Exception:
            et, ev, tb = sys.exc_info()
        wit.update(file_name=name, show_locals=rng.random() < 0.3)
        make = lambda: Traceback.from_exception(et, ev, tb, width=rng.choice([None, 100, 40]), extra_lines=rng.choice([0, 3]),
                                                show_locals=wit["show_locals"], word_wrap=rng.random() < 0.3)
    elif kind == "syntax":
        lexer = rng.choice(["python", "nosuchlexer", "", "text", "json", "c++", "PYTHON", "html+jinja", "default", " "])
        code = S.free_string(rng, rng.choice([0, 10, 80]), S.pick_weights(rng), space=0.15, newline=0.1, tab=0.05)
        wit.update(lexer=lexer, code=code)
        opts = {"line_numbers": rng.random() < 0.5, "word_wrap": rng.random() < 0.3, "indent_guides": rng.random() < 0.3,
                "theme": rng.choice(["monokai", "ansi_dark", "default"])}
        make = lambda: Syntax(code, lexer, **opts)
    else:
        import collections
        import enum
        import os as _os
        import sys as _sys
        Point = collections.namedtuple("Point", "x y")

        class Stack(list):
            pass

        class Colour(enum.IntEnum):
            RED = 1
        # plain values, and values whose TYPE is a subclass of a built-in container (named tuples, OrderedDict,
        # struct sequences, user subclasses) - at the top or nested
        value = rng.choice([[1, 2, {"a": (None, 3.5)}], {"k": "v" * 50}, "s", 12, [], {}, (1,), set(), range(3), object,
                            Point(1, 2), [Point(1, 2), Point(3, 4)], collections.OrderedDict(a=1, b=[2]),
                            _sys.version_info, _os.terminal_size((80, 24)), Stack([1, 2]), {"s": Stack()},
                            Colour.RED, collections.ChainMap({"a": 1}), collections.UserList([1]), frozenset({Point(0, 0)}),
                            collections.defaultdict(list, a=[1]), collections.Counter("aab"), collections.deque([1], maxlen=3)])
        wit.update(value=repr(value))
        make = lambda: Pretty(value, indent_guides=rng.random() < 0.3, max_length=rng.choice([None, 1]),
                              expand_all=rng.random() < 0.2)
    signal.signal(signal.SIGALRM, _alarm)
    for W in sorted({1, 2, 3, 5, 10, 40, 80, 200, rng.randint(1, 200)}):
        console = consoles.layout_console(W, legacy=rng.random() < 0.1, ascii_only=rng.random() < 0.1)
        signal.setitimer(signal.ITIMER_REAL, 10)
        try:
            def run():
                for _ in console.render(make(), console.options):
                    pass
                Measurement.get(console, make(), W)
            guarded(ctx, "other_renderable", (), run, dict(wit, width=W))
        except Timeout:
            ctx.mark_inconclusive("watchdog fired rendering %s at width %d" % (kind, W))
        finally:
            signal.setitimer(signal.ITIMER_REAL, 0)
    ctx.hist("other_renderable_kind", kind + (":" + wit.get("file_name", "") if kind == "traceback" else ""))
    ctx.case_done(("other", repr(wit)), True, wit)


def wl_highlight_styles_defined(ctx):
    """Exhaustive and cheap: every style name the built-in highlighters can attach (each named group of each
    pattern, prefixed with the highlighter's base style) resolves on a default console."""
    import re
    from rich import highlighter as H
    from rich.errors import MissingStyle
    console = _console()
    n = 0
    for cls in (H.ReprHighlighter, getattr(H, "JSONHighlighter", None), getattr(H, "ISO8601Highlighter", None)):
        if cls is None:
            continue
        for pattern in cls.highlights:
            for group in re.compile(pattern).groupindex:
                n += 1
                name = cls.base_style + group
                ctx.count("mon.highlight_style_defined")
                try:
                    console.get_style(name)
                except MissingStyle as e:
                    ctx.violation("highlighter-style-undefined:%s" % cls.__name__, {"style": name, "error": repr(e)})
                ctx.case_done(("hs", name), True, {"style": name})
    ctx.mark_exhaustive("highlighter-group-styles", n)


def workloads(tier):
    big = tier == "thorough"
    return [WL("tokens", wl_tokens, kind="custom"),
            WL("unicode", wl_unicode, 600000 if big else 30000),
            WL("trees", wl_trees, 200000 if big else 6000),
            WL("highlight_styles_defined", wl_highlight_styles_defined, kind="custom"),
            WL("highlighted", wl_highlighted, 300000 if big else 12000),
            WL("other_renderables", wl_other_renderables, 60000 if big else 2500)]


LEVEL_TEXT = ("Feeds the real parsers, decoder, Text constructor and Console.print every concatenation of "
              "syntax-significant tokens up to a length bound (exhaustive slice) and random hostile Unicode, and renders "
              "and measures random valid renderable trees at widths far below their structural minimum; the monitor is "
              "the exception type observed at the public entry point against the documented-error table, plus a "
              "termination watchdog (inconclusive when it fires).")
LEVEL_NOTE = "Trusted: the allowed-exception table taken from the property statement."
TECHNIQUE = "runtime monitoring: exception-type oracle at public entry points over bounded-exhaustive token strings, random Unicode and below-minimum renders"
