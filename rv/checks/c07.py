"""C07 - tables are rectangles that show every cell in its own column."""
import json

from rv.core.runner import WL
from rv.gen import specs as SP
from rv.gen import strings as S
from rv.model import cellref, consoles

ID = "C07"
LEVEL = "exploration"
RULE = ("random tables of 1-6 columns x 0-8 rows with every table option (box incl. None, header/footer/edge/lines, "
        "leading 0-3, padding forms, pad_edge, collapse_padding, expand, min_width, title/caption, row_styles, "
        "end_section) and column options (justify, overflow, ratio, max_width); cells are strings of characters that "
        "are UNIQUE within the table (multi-line, wide), Text objects, and nested panels; rendered fresh at widths "
        "m..200 (m, m+1, m+2, random, 80, 200). Non-trivial: >=2 columns, >=2 rows and some cell wrapped onto >=2 "
        "lines; distinct by (table spec, width).")
ASSUMPTIONS = ["column spans are located with the table's own width vector and cross-checked against the junction "
               "characters of the top border when the box draws one",
               "presence of a character is asserted only when the column's observed content width (span minus the full "
               "padding) admits its widest character: the width solver does not promise every column its minimum",
               "the unique alphabet excludes box glyphs, the ellipsis and guide glyphs"]
REQUIRED = ["mon.row_of_cells_that_draw_nothing", "mon.twin_with_other_overflow_rendered_first", "mon.rectangle", "mon.expand_exact", "mon.title_metamorphic", "mon.row_order", "mon.in_column", "mon.presence"]
MIN_NONTRIVIAL = {"quick": 2000, "thorough": 100000}


def gen_table(rng):
    w = S.pick_weights(rng)
    pool = S.UniquePool(rng, w)
    owner = {}      # char -> (row_key, col)

    # "big" tables: prose-length cells on a very wide console, so that column widths (and ties between them) lie
    # above 256 - beyond the widths unit tests and most harnesses ever see (and beyond CPython's shared small ints)
    big = rng.random() < 0.03

    tiny = rng.random() < 0.15      # tables of one- and two-character cells: a column that loses a single cell loses content

    def text_cell(row_key, col, allow_nl=True):
        lens = [0, 1, 1, 2] if tiny else [0, 2, 6, 14, 30]
        if big and row_key not in ("header", "footer") and col < 2:
            lens = [280, 400, 400, 650]
        s = pool.string(rng.choice(lens), space=0.18, newline=0.06 if allow_nl and not big else 0.0)
        for ch in s:
            if not ch.isspace():
                owner[ch] = (row_key, col)
        return {"k": "text", "s": s, "justify": None, "overflow": None, "no_wrap": None, "style": None}

    def cell(row_key, col):
        r = rng.random()
        if r < 0.85:
            return text_cell(row_key, col)
        if r < 0.93:
            c = text_cell(row_key, col)
            c["style"] = "bold"
            c["justify"] = rng.choice([None, "center", "right"])
            return c
        inner = text_cell(row_key, col, allow_nl=False)
        return {"k": "panel", "child": inner, "box": "SQUARE", "title": None, "title_align": "center",
                "expand": rng.random() < 0.5, "width": None, "padding": 0, "safe_box": None, "style": "none"}
    ncols = rng.choice([1, 2, 2, 3, 4, 6])
    nrows = rng.choice([0, 1, 2, 3, 5, 8])
    if big:
        ncols, nrows = rng.choice([2, 3, 3]), rng.choice([1, 2])
    spec = SP.gen_table_spec(rng, 2, {"newlines": True}, ncols=ncols, nrows=nrows)
    spec["big"] = big
    for j, col in enumerate(spec["columns"]):
        col["header"] = cell("header", j) if rng.random() < 0.8 else {"k": "text", "s": "", "justify": None,
                                                                      "overflow": None, "no_wrap": None, "style": None}
        col["footer"] = cell("footer", j) if rng.random() < 0.6 else {"k": "text", "s": "", "justify": None,
                                                                      "overflow": None, "no_wrap": None, "style": None}
        col["overflow"] = rng.choice(["fold", "fold", "fold", "crop", "ellipsis"])
        col["style"] = None
    for i, row in enumerate(spec["rows"]):
        row["cells"] = [cell(i, j) for j in range(ncols)]
    if spec.pop("declared", None) is not None or (ncols >= 2 and nrows >= 1 and rng.random() < 0.1):
        SP.make_ragged(spec, rng, cell)
    elif ncols >= 2 and nrows >= 1 and rng.random() < 0.08:
        # construction order "a column is added when rows already exist": blank in those rows
        k = rng.randint(1, nrows)
        for i, row in enumerate(spec["rows"]):
            if i < k:
                del row["cells"][ncols - 1:]
        spec["late_column"] = {"after_rows": k, "column": spec["columns"][-1]}
    if rng.random() < 0.2:
        spec["decor"] = SP._decor("table", rng)      # header / footer / border / title styles, title justification
    if ncols >= 2 and nrows >= 1 and rng.random() < 0.05:
        spec["rejected_row_before"] = rng.randrange(nrows)
    spec["title"] = rng.choice([None, None, "TTT", "TITLE TITLE TITLE"])
    spec["caption"] = rng.choice([None, None, "CCC"])
    if rng.random() < (0.6 if tiny else 0.3):
        # a table min_width within a few cells of the table's natural width: the boundary of the "pad up to
        # min_width" branch of the width solver
        _, pr_, _, pl_ = SP.unpack_pad(spec["padding"])
        total = 0
        for j, col in enumerate(spec["columns"]):
            cells_ = [col["header"], col["footer"]] + [r["cells"][j] for r in spec["rows"] if j < len(r["cells"])]
            wmax = 1
            for c in cells_:
                text = c["s"] if c["k"] == "text" else c["child"]["s"]
                wmax = max([wmax] + [cellref.width(l) for l in text.split("\n")])
            total += wmax + pl_ + pr_
        spec["min_width"] = max(1, total + rng.randint(-3, 9))
    return spec, owner


def _empty_grid():
    from rich.table import Table
    return Table.grid()


def visible_lines(console, obj):
    return SP.render_lines_cells(console, obj)


def char_offsets(line):
    """[(char, cell offset)]"""
    out = []
    pos = 0
    for ch in line:
        out.append((ch, pos))
        pos += cellref.char_width(ch)
    return out


def table_features(spec, W, m):
    f = []
    if spec["expand"]:
        f.append("expand")
    if spec["min_width"] is not None:
        f.append("min_width")
    if any(c["ratio"] for c in spec["columns"]):
        f.append("ratio")
    if any(c["max_width"] is not None for c in spec["columns"]):
        f.append("col_max_width")
    if spec.get("declared") is not None:
        f.append("columns_created_by_rows")
    if spec.get("width") is not None:
        f.append("table_width")
    if spec.get("big"):
        f.append("widths_above_256")
    if spec.get("late_column"):
        f.append("column_added_after_rows")
    if spec.get("rejected_row_before") is not None:
        f.append("after_a_rejected_add_row")
    return "+".join(f) or "plain"


def wl_tables(ctx, rng, case_no):
    spec, owner = gen_table(rng)
    m = SP.structural_min(spec)
    if m > 200:
        return
    ncols = len(spec["columns"])
    widths_to_try = sorted({m, m + 1, m + 2, rng.randint(m, 200), rng.randint(m, 200), 80, 200})
    widths_to_try = [w for w in widths_to_try if m <= w <= 200]
    if spec.get("big"):
        widths_to_try = sorted({200, rng.randint(257, 400), rng.randint(300, 700), rng.randint(500, 1000), 520})
        ctx.count("big_tables")
    _, pr, _, pl = SP.unpack_pad(spec["padding"])
    own_width = rng.random() if rng.random() < 0.15 else None
    for W in widths_to_try:
        console = consoles.layout_console(W)
        bare = dict(spec, title=None, caption=None)
        avail = W
        if own_width is not None:
            # Table(width=n): the table's own width replaces the available width ("setting a width implies expand")
            avail = m + int((W - m) * own_width)
            bare["width"] = avail
            spec = dict(spec, width=avail)
        if case_no % 3 == 0:
            # history: the same cells were laid out before, in this process and at this width, by a table that differs
            # only in how its columns treat words that do not fit (a memo of wrapping decisions must not carry them over)
            ctx.count("mon.twin_with_other_overflow_rendered_first")
            twin = dict(bare, columns=[dict(c, overflow=("ellipsis" if (i + case_no) % 2 == 0 else "crop"))
                                       for i, c in enumerate(bare["columns"])])
            visible_lines(console, SP.build(twin))
        table = SP.build(bare)
        lw, lines = visible_lines(console, table)
        wit = {"spec": spec, "width": W, "structural_min": m, "lines": lines[:60]}
        feats = table_features(spec, W, m)
        # the table's own width vector (fresh object)
        t2 = SP.build(bare)
        extra = t2._extra_width
        col_w = t2._calculate_column_widths(console, avail - extra)
        wit["column_widths"] = col_w
        total = sum(col_w) + extra
        # 1. rectangle
        ctx.count("mon.rectangle")
        if lines and len(set(lw)) != 1:
            ctx.violation("table-lines-have-different-widths:" + feats, dict(wit, line_widths=sorted(set(lw))))
            continue
        if lines and lw[0] != total:
            ctx.violation("table-width-differs-from-column-widths-plus-borders:" + feats,
                          dict(wit, line_width=lw[0], expected=total))
            continue
        if lines and lw[0] > avail:
            ctx.violation("table-wider-than-available:" + feats, dict(wit, line_width=lw[0]))
            continue
        # 2. expand exactness
        if (spec["expand"] or own_width is not None) and all(c["max_width"] is None for c in spec["columns"]) and lines:
            ctx.count("mon.expand_exact")
            if lw[0] != avail:
                ctx.violation("expanding-table-not-exactly-available-width:" + feats, dict(wit, line_width=lw[0]))
        # 2b. what the caller asked of the PRINT (print(table, no_wrap=True, overflow=..., justify=...)) is not the
        # table's business: every column passes its own wrapping mode to its cells, so the body is the same
        if rng.random() < 0.2:
            ctx.count("mon.outer_options_metamorphic")
            outer = {"no_wrap": rng.choice([True, True, False]), "overflow": rng.choice(["fold", "crop", "ellipsis"]),
                     "justify": rng.choice(["left", "right", "center", "full"])}
            lw3, lines3 = SP.render_lines_cells(console, SP.build(bare), console.options.update(**outer))
            if lines3 != lines:
                ctx.violation("table-body-depends-on-the-print's-own-wrapping-options:" + feats,
                              dict(wit, outer_options=outer, with_outer_options=lines3[:60]))
                continue
        # 2c. a row is a row whatever its cells draw: a row whose cells all render to NOTHING (an empty group, an empty
        # grid) still has lines of its own - the table looks exactly as with empty texts in that row
        if case_no % 5 == 2 and bare["rows"] and "declared" not in bare and bare.get("late_column") is None:
            ctx.count("mon.row_of_cells_that_draw_nothing")
            k = case_no // 5 % len(bare["rows"])
            ncell = len(bare["rows"][k]["cells"])
            if ncell:
                def with_row(cell):
                    rows = [dict(r) for r in bare["rows"]]
                    rows[k] = dict(rows[k], cells=[cell(j) for j in range(ncell)])
                    return dict(bare, rows=rows)
                empty_text = {"k": "text", "s": "", "justify": None, "overflow": None, "no_wrap": None, "style": None}
                nothing = [{"k": "group", "children": [], "fit": True},
                           {"k": "raw", "factory": _empty_grid}]
                ta, tb = SP.build(with_row(lambda j: empty_text)), SP.build(with_row(lambda j: nothing[(j + case_no) % 2]))
                _, a = visible_lines(console, ta)
                _, b = visible_lines(console, tb)
                pad_t, _, pad_b, _ = SP.unpack_pad(bare["padding"])
                same_widths = (SP.build(with_row(lambda j: empty_text))._calculate_column_widths(console, avail - extra) ==
                               SP.build(with_row(lambda j: nothing[(j + case_no) % 2]))._calculate_column_widths(console, avail - extra))
                if pad_t or pad_b or not same_widths:
                    # (with vertical cell padding the row has the padding's lines either way, and an empty text still
                    # measures differently from nothing at all: only the plain case is compared, by its number of lines)
                    ctx.count("unasserted:nothing_row_with_vertical_padding_or_other_widths")
                elif len(a) != len(b):
                    ctx.violation("row-whose-cells-draw-nothing-differs-from-a-row-of-empty-texts:" + feats,
                                  dict(wit, row=k, with_empty_texts=a[:40], with_cells_that_draw_nothing=b[:40]))
                    continue
        # 3. title / caption do not change the body
        if spec["title"] or spec["caption"]:
            ctx.count("mon.title_metamorphic")
            lw2, lines2 = visible_lines(consoles.layout_console(W), SP.build(spec))
            n = len(lines)
            found = any(lines2[k:k + n] == lines for k in range(0, len(lines2) - n + 1)) if n else True
            if not found:
                ctx.violation("title-or-caption-changes-table-body:" + feats, dict(wit, with_title=lines2[:60]))
        # column spans
        box = spec["box"]
        start = 1 if (box and spec["show_edge"]) else 0
        spans = []
        for j, cw in enumerate(col_w):
            spans.append((start, start + cw))
            start += cw + (1 if box else 0)
        # cross-check spans with the top border junctions
        # 4/5. characters
        where = {}     # char -> [(line_no, offset)]
        for ln, line in enumerate(lines):
            for ch, off in char_offsets(line):
                if ch in owner:
                    where.setdefault(ch, []).append((ln, off))
        # row order
        ctx.count("mon.row_order")
        row_lines = {}
        for ch, occ in where.items():
            rk = owner[ch][0]
            for ln, _ in occ:
                row_lines.setdefault(rk, []).append(ln)
        order = []
        if "header" in row_lines and spec["show_header"]:
            order.append("header")
        order += [i for i in range(len(spec["rows"])) if i in row_lines]
        if "footer" in row_lines and spec["show_footer"]:
            order.append("footer")
        prev_hi = -1
        for rk in order:
            lo, hi = min(row_lines[rk]), max(row_lines[rk])
            if lo <= prev_hi:
                ctx.violation("rows-overlap-or-out-of-order:" + feats, dict(wit, row=rk, lines_of_row=(lo, hi), prev_hi=prev_hi))
                break
            prev_hi = hi
        for rk in row_lines:
            if (rk == "header" and not spec["show_header"]) or (rk == "footer" and not spec["show_footer"]):
                ctx.violation("hidden-header-or-footer-shown", dict(wit, row=rk))
        # in-column, at most once, in order, presence
        wrapped_any = False
        # "roomy": the available width covers every column's natural width (widest cell line + full padding) plus the
        # borders, and no column is flexible: the solver has no reason to hand any column less than it needs, so
        # every character must be present whatever width the column was actually given
        def _natural(col, j):
            cells_ = [col["header"], col["footer"]] + [r["cells"][j] for r in spec["rows"] if j < len(r["cells"])]
            wmax = 0
            for c in cells_:
                if c["k"] != "text":
                    return None
                wmax = max([wmax] + [cellref.width(l) for l in c["s"].split("\n")])
            return max(wmax, 1) + pl + pr
        naturals = [_natural(col, j) for j, col in enumerate(spec["columns"])]
        roomy = (all(n is not None for n in naturals) and not any(c["ratio"] for c in spec["columns"])
                 and avail - extra >= sum(naturals))
        ctx.hist("roomy", "yes" if roomy else "no")
        for j, col in enumerate(spec["columns"]):
            if col["overflow"] != "fold":
                continue
            lo, hi = spans[j]
            cells = [("header", col["header"])] if spec["show_header"] else []
            cells += [(i, r["cells"][j]) for i, r in enumerate(spec["rows"]) if j < len(r["cells"])]
            if spec["show_footer"]:
                cells.append(("footer", col["footer"]))
            col_strings = [c["s"] if c["k"] == "text" else c["child"]["s"] for _, c in cells]
            need = 2 if any(S.has_wide(s) for s in col_strings) else 1
            content = (hi - lo) - (pl + pr)
            for (rk, c), s in zip(cells, col_strings):
                chars = [ch for ch in s if not ch.isspace()]
                seq = []
                for ch in chars:
                    occ = where.get(ch, [])
                    ctx.count("mon.in_column")
                    if len(occ) > 1:
                        ctx.violation("cell-character-duplicated:" + feats, dict(wit, char=ch, column=j, occurrences=occ))
                        break
                    for ln, off in occ:
                        if not (lo <= off and off + cellref.char_width(ch) <= hi):
                            ctx.violation("cell-character-outside-its-column:" + feats,
                                          dict(wit, char=ch, column=j, offset=off, span=(lo, hi), line=lines[ln]))
                            break
                    if occ:
                        seq.append(occ[0])
                    elif cellref.char_width(ch) == 0:
                        # a zero-width character needs no cell: a cell holding nothing else measures 0 and may be given
                        # no content width at all; its presence is not asserted (its placement, when shown, is)
                        ctx.count("zero_width_char_absent_not_asserted")
                    elif c["k"] == "text" and c.get("overflow") is None and roomy and col["max_width"] is None:
                        ctx.count("mon.presence")
                        ctx.violation("cell-character-missing-although-table-has-room-for-natural-widths:" + feats,
                                      dict(wit, char=ch, column=j, row=rk, naturals=naturals, column_width=hi - lo))
                        break
                    elif c["k"] == "text" and c.get("overflow") is None and content >= need:
                        ctx.count("mon.presence")
                        ctx.violation("cell-character-missing-although-column-has-room:" + feats,
                                      dict(wit, char=ch, column=j, row=rk, content_width=content))
                        break
                    elif (c["k"] == "text" and c.get("overflow") is None
                          and (col["max_width"] is None or col["max_width"] >= need)
                          and (col.get("width") is None) and content < need):
                        # the width solver gave this column fewer content cells than its widest character needs
                        # although the available width is at or above the table's structural minimum (every case here
                        # is): the statement promises the characters, the solver does not deliver the cells
                        cause = []
                        if need == 2:
                            cause.append("wide-character")
                        if any(cc["ratio"] for cc in spec["columns"]):
                            cause.append("ratio")
                        if not spec["pad_edge"] or spec["collapse_padding"]:
                            cause.append("unequal-column-padding")
                        if spec["min_width"] is not None:
                            cause.append("min_width")
                        if col["max_width"] is not None:
                            # (a cap that admits the column's widest character: the cap is an upper bound on the
                            # content, it does not license showing nothing)
                            cause.append("capped-column")
                        ctx.count("mon.presence")
                        ctx.violation("fold-column-given-less-than-one-character-at-or-above-the-structural-minimum:%s"
                                      % ("+".join(cause) or "plain"),
                                      dict(wit, char=ch, column=j, row=rk, content_width=content, needs=need,
                                           slack=W - m))
                        break
                else:
                    ctx.count("mon.presence")
                    if seq != sorted(seq):
                        ctx.violation("cell-characters-out-of-order:" + feats, dict(wit, column=j, row=rk, positions=seq))
                    if len({ln for ln, _ in seq}) >= 2:
                        wrapped_any = True
        sig = (json.dumps(spec, sort_keys=True, ensure_ascii=False, default=str), W)
        ctx.hist("features", feats)
        ctx.hist("width_minus_m", min(W - m, 10))
        ctx.case_done(sig, ncols >= 2 and len(spec["rows"]) >= 2 and wrapped_any,
                      {"spec": spec, "width": W, "m": m, "column_widths": col_w})


def workloads(tier):
    return [WL("tables", wl_tables, 250000 if tier == "thorough" else 6000)]


LEVEL_TEXT = ("Renders freshly built random tables with self-identifying (unique) cell characters through the real "
              "Console.render at and above the structural minimum and checks: equal line widths = column widths + "
              "borders, exact width when expanding, body unchanged by title/caption, row order and disjointness, and for "
              "fold columns every character inside its column's cell span, at most once, in order, and present when "
              "the column has room.")
LEVEL_NOTE = "Trusted: reference width table; the table's own width vector as the locator of column spans (the rectangle oracle ties it to what was drawn)."
TECHNIQUE = "runtime monitoring: unique-character placement oracle + rectangle/expand/row-order invariants on the rendered Segment stream"
