#!/venv/bin/python
"""setup_cmd: byte-compile nothing (we run with -B); import every module and run model self-examples."""
import importlib
import os
import sys

sys.dont_write_bytecode = True
HERE = os.path.dirname(os.path.abspath(__file__))
sys.path.insert(0, os.path.dirname(HERE))
from rv.core import env  # noqa: E402

env.setup_rich()
n = 0
for root, _, files in os.walk(HERE):
    for f in files:
        if f.endswith(".py") and f not in ("run.py", "setup_check.py", "mkmanifest.py"):
            rel = os.path.relpath(os.path.join(root, f), os.path.dirname(HERE))[:-3].replace(os.sep, ".")
            if rel.endswith(".__init__"):
                rel = rel[:-9]
            m = importlib.import_module(rel)
            n += 1
            st = getattr(m, "selftest", None)
            if callable(st):
                st()
print("rv setup ok: %d modules imported, model self-examples passed" % n)
