#!/bin/sh
# Runs the repository's pinned test suite with the verification guard OFF and compares with BASELINE.json.
unset RICH_VERIF
cd /repo && /venv/bin/python -m pytest -ra -q -p no:cacheprovider --timeout=900 --continue-on-collection-errors --junitxml=${1:-/dev/null} 2>&1 | tail -15
