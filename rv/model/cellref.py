"""Reference cell width: a linear scan over the *data* of rich._cell_widths, coded
independently of the binary search and caches in rich/cells.py."""
from rich._cell_widths import CELL_WIDTHS

_TABLE = None


def _build():
    global _TABLE
    # dense array, built by a linear walk over the ranges: 1 unless a range says otherwise
    t = bytearray(b"\x01") * 0x110000
    for start, end, width in CELL_WIDTHS:
        w = 0 if width == -1 else width
        for cp in range(start, min(end, 0x10FFFF) + 1):
            t[cp] = w
    _TABLE = bytes(t)


def char_width(ch: str) -> int:
    if _TABLE is None:
        _build()
    return _TABLE[ord(ch)]


def width(s: str) -> int:
    if _TABLE is None:
        _build()
    t = _TABLE
    return sum(t[ord(c)] for c in s)


def table_scan(cp: int) -> int:
    """Literal linear scan (no precomputation) - used by C13's exhaustive comparison of the
    dense table itself on a sample, so that the dense table is not its own oracle."""
    for start, end, w in CELL_WIDTHS:
        if start <= cp <= end:
            return 0 if w == -1 else w
    return 1
