"""Reading the per-character effective style back from real Rich objects."""
import io

from rv.gen import styles as G


def make_console(width=80, color_system="truecolor", **kw):
    from rich.console import Console
    kw.setdefault("force_terminal", True)
    kw.setdefault("legacy_windows", False)
    kw.setdefault("_environ", {})
    return Console(file=io.StringIO(), width=width, color_system=color_system, **kw)


def vis_of_style(style):
    """Visible meaning of a rich Style: (on-attributes, fg, bg, link), colours by value."""
    if style is None:
        return (frozenset(), None, None, None)
    on = frozenset(a for a in G.ATTRS if getattr(style, a))
    return (on, G.color_view(style.color), G.color_view(style.bgcolor), style.link or None)


def vis_of_record(rec):
    return (G.on_attrs(rec),
            G.expected_color(rec["fg"]) if rec["fg"] is not None else None,
            G.expected_color(rec["bg"]) if rec["bg"] is not None else None,
            rec["link"])


NULL_VIS = (frozenset(), None, None, None)


def fold_records(recs):
    acc = {"attrs": {}, "fg": None, "bg": None, "link": None}
    for r in recs:
        acc = G.add_records(acc, r)
    return acc


def char_styles(text, console):
    """[(char, vis)] for a rich Text, from the Segment stream of Text.render()."""
    out = []
    for seg in text.render(console):
        if seg.is_control:
            continue
        v = vis_of_style(seg.style)
        out.extend((ch, v) for ch in seg.text)
    return out


def segments_chars(segments):
    out = []
    for seg in segments:
        if seg.is_control:
            continue
        v = vis_of_style(seg.style)
        out.extend((ch, v) for ch in seg.text)
    return out


def vis_json(v):
    return {"on": sorted(v[0]), "fg": v[1], "bg": v[2], "link": v[3]}
