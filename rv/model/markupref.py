"""A reference interpreter for console markup, written from the documented behaviour (docs/source/markup.rst and
the property statement), scanning by hand - no regular expression shared with rich/markup.py.

interpret(s, normalize) -> ("error", position) | ("ok", plain, spans)  with spans = [(start, end, style_str)] in
the order the tags were OPENED.  `normalize` is Style.normalize (tag names are compared after normalisation).
"""

_TAG_START = set("abcdefghijklmnopqrstuvwxyz#/")


def _find_tag(s, pos):
    """Next '[' at or after pos that starts a tag: followed by a-z, '#' or '/', then the first ']' with no
    newline in between.  Returns (bracket index, closing index) or None."""
    n = len(s)
    i = pos
    while True:
        j = s.find("[", i)
        if j < 0 or j + 1 >= n:
            return None
        if s[j + 1] in _TAG_START:
            k = j + 2
            while k < n and s[k] != "]" and s[k] != "\n":
                k += 1
            if k < n and s[k] == "]":
                return j, k
        i = j + 1


def interpret(s, normalize):
    plain = []
    length = 0
    stack = []          # (start offset, name, params, open order)
    spans = []          # (open order, start, end, style)
    order = 0
    pos = 0
    while True:
        found = _find_tag(s, pos)
        if found is None:
            break
        j, k = found
        # backslashes immediately before the bracket
        b = j
        while b > pos and s[b - 1] == "\\":
            b -= 1
        nback = j - b
        if b > pos:
            plain.append(s[pos:b])
            length += b - pos
        if nback:
            plain.append("\\" * (nback // 2))
            length += nback // 2
        if nback % 2 == 1:
            lit = s[j:k + 1]
            plain.append(lit)
            length += len(lit)
            pos = k + 1
            continue
        body = s[j + 1:k]
        name, eq, params = body.partition("=")
        if name.startswith("/"):
            close = name[1:].strip()
            if close:
                want = normalize(close)
                for idx in range(len(stack) - 1, -1, -1):
                    if stack[idx][1] == want:
                        start, nm, pr, o = stack.pop(idx)
                        break
                else:
                    return ("error", j)
            else:
                if not stack:
                    return ("error", j)
                start, nm, pr, o = stack.pop()
            spans.append((o, start, length, nm if pr is None else "%s %s" % (nm, pr)))
        else:
            stack.append((length, normalize(name), params if eq else None, order))
            order += 1
        pos = k + 1
    if pos < len(s):
        plain.append(s[pos:])
        length += len(s) - pos
    while stack:
        start, nm, pr, o = stack.pop()
        spans.append((o, start, length, nm if pr is None else "%s %s" % (nm, pr)))
    spans.sort()
    return ("ok", "".join(plain), [(a, b, st) for _, a, b, st in spans])


def selftest():
    norm = lambda x: x.strip().lower()
    assert interpret("[b]x[/b]y", norm) == ("ok", "xy", [(0, 1, "b")])
    assert interpret("\\[b]x", norm) == ("ok", "[b]x", [])
    assert interpret("\\\\[b]x", norm) == ("ok", "\\x", [(1, 2, "b")])
    assert interpret("[/]", norm)[0] == "error"
    assert interpret("[a][b]x[/a]y[/]", norm) == ("ok", "xy", [(0, 1, "a"), (0, 2, "b")])
    assert interpret("[1]", norm) == ("ok", "[1]", [])
    assert interpret("[a\n]", norm) == ("ok", "[a\n]", [])
    assert interpret("[link=u]x", norm) == ("ok", "x", [(0, 1, "link u")])
