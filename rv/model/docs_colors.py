"""Parses docs/source/appendix/colors.rst at run time: an oracle for colour names, numbers and
8-bit palette RGB values that is not the code's own table."""
import html
import os
import re

from rv.core import env

_rows = None


def rows():
    """[(number, name, (r,g,b) or None)]"""
    global _rows
    if _rows is not None:
        return _rows
    path = os.path.join(env.REPO, "docs", "source", "appendix", "colors.rst")
    out = []
    for line in open(path, encoding="utf-8"):
        if "│" not in line:
            continue
        plain = html.unescape(re.sub(r"<[^>]+>", "", line))
        cols = [c.strip() for c in plain.strip().strip("║").split("│")]
        if len(cols) != 5 or not cols[1].isdigit():
            continue
        number = int(cols[1])
        name = cols[2].strip('"')
        rgb = None
        m = re.fullmatch(r"#([0-9a-fA-F]{6})", cols[3])
        if m:
            h = m.group(1)
            rgb = (int(h[0:2], 16), int(h[2:4], 16), int(h[4:6], 16))
            m2 = re.fullmatch(r"rgb\((\d+),(\d+),(\d+)\)", cols[4])
            assert m2 and tuple(map(int, m2.groups())) == rgb, line
        out.append((number, name, rgb))
    assert len(out) > 150, len(out)
    _rows = out
    return out


def selftest():
    r = rows()
    assert (0, "black", None) in r and (21, "blue1", (0, 0, 255)) in r
