"""Console factories for layout checks."""
import io


class EncodedStringIO(io.StringIO):
    def __init__(self, encoding="utf-8"):
        super().__init__()
        self._enc = encoding

    @property
    def encoding(self):
        return self._enc


def layout_console(width, legacy=False, ascii_only=False, color_system="truecolor", height=25, **kw):
    from rich.console import Console
    return Console(file=EncodedStringIO("ascii" if ascii_only else "utf-8"), width=width, height=height,
                   color_system=color_system, force_terminal=True, legacy_windows=legacy, _environ={}, **kw)
