"""Generates console-markup documents together with their expected meaning.

The expectation (plain text, per character the ordered list of open tags, validity) is produced
by the generator while it writes the document - never by a parser."""
from rv.gen import styles as G

# tag vocabulary: (spellings to open with, spellings to close with, expectation record)
def _rec(attrs=None, fg=None, bg=None, link=None):
    return {"attrs": attrs or {}, "fg": fg, "bg": bg, "link": link}


VOCAB = [
    (["red"], ["red"], _rec(fg=("named", "red", 1))),
    (["blue"], ["blue"], _rec(fg=("named", "blue", 4))),
    (["bold", "b"], ["bold", "b"], _rec({"bold": True})),
    (["not bold"], ["not bold"], _rec({"bold": False})),
    (["italic", "i"], ["italic", "i"], _rec({"italic": True})),
    (["underline", "u"], ["underline", "u"], _rec({"underline": True})),
    (["on green"], ["on green"], _rec(bg=("named", "green", 2))),
    (["#010203"], ["#010203"], _rec(fg=("hex", 1, 2, 3))),
    (["bold red", "red bold"], ["bold red", "red bold"], _rec({"bold": True}, fg=("named", "red", 1))),
    (["blue on yellow"], ["blue on yellow"], _rec(fg=("named", "blue", 4), bg=("named", "yellow", 3))),
    (["link=http://a:b/c"], ["link"], _rec(link="http://a:b/c")),
    (["link=https://x.y/?q=1#f"], ["link"], _rec(link="https://x.y/?q=1#f")),
    (["strike", "s"], ["strike", "s"], _rec({"strike": True})),
    # links written as part of a style definition (space form), with upper-case characters in the URL
    (["link https://Example.org/Docs/ReadMe"], ["link https://Example.org/Docs/ReadMe"], _rec(link="https://Example.org/Docs/ReadMe")),
    (["bold link HTTPS://X.Y/Zed"], ["bold link HTTPS://X.Y/Zed"], _rec({"bold": True}, link="HTTPS://X.Y/Zed")),
    (["link=http://A:b/C"], ["link"], _rec(link="http://A:b/C")),
    # tags whose name is NOT a style (unknown words, style definitions cut short): still tags - removed from the
    # text, closed by name - but they style nothing
    (["not"], ["not"], _rec()),
    (["bold not"], ["bold not"], _rec()),
    (["on"], ["on"], _rec()),
    (["red on"], ["red on"], _rec()),
    (["not nosuchattr"], ["not nosuchattr"], _rec()),
    (["nosuchstyle"], ["nosuchstyle"], _rec()),
    (["two words"], ["two words"], _rec()),
]

LEAF_ALPHABET = "[]\\/=#ab1 \n:xyzR漢́"


def proviso_ok(s):
    """s does not end in a backslash and every '[' in s is closed by a later ']' within s."""
    if s.endswith("\\"):
        return False
    need = False
    for ch in s:
        if ch == "[":
            need = True
        elif ch == "]":
            need = False
    return not need


def rand_leaf(rng, max_len=8):
    for _ in range(50):
        n = rng.randint(1, max_len)
        s = "".join(rng.choice(LEAF_ALPHABET) for _ in range(n))
        if proviso_ok(s):
            return s
    return "x"


def generate(rng, escape, max_events=12):
    """Returns dict(doc, plain, layers=[list of vocab indices per char], invalid=bool,
    invalid_at=event index or None)."""
    doc = []
    plain = []
    layers = []
    stack = []  # vocab indices, opening order
    invalid = False
    n_events = rng.randint(1, max_events)
    want_invalid = rng.random() < 0.12
    invalid_pos = rng.randrange(n_events) if want_invalid else -1
    kinds = {"text": 0, "open": 0, "close_top": 0, "close_inner": 0, "close_any": 0}
    for ev in range(n_events):
        if ev == invalid_pos:
            # a close with nothing to close
            candidates = [i for i in range(len(VOCAB))
                          if all(VOCAB[i][1] != VOCAB[j][1] for j in stack)]
            if stack or rng.random() < 0.6:
                i = rng.choice(candidates)
                doc.append("[/%s]" % rng.choice(VOCAB[i][1]))
            else:
                doc.append("[/]")
            if True:
                invalid = True
                break
        r = rng.random()
        if r < 0.40 or (not stack and r < 0.55):
            s = rand_leaf(rng)
            doc.append(escape(s))
            plain.append(s)
            layers.extend([tuple(stack)] * len(s))
            kinds["text"] += 1
        elif r < 0.72 or not stack:
            i = rng.randrange(len(VOCAB))
            doc.append("[%s]" % rng.choice(VOCAB[i][0]))
            stack.append(i)
            kinds["open"] += 1
        elif r < 0.84:
            doc.append("[/]")
            stack.pop()
            kinds["close_any"] += 1
        else:
            # explicit close of some open tag (most recent of that name)
            pos = rng.randrange(len(stack))
            i = stack[pos]
            names = set(VOCAB[i][1])
            # most recent tag with a matching close-name
            for k in range(len(stack) - 1, -1, -1):
                if set(VOCAB[stack[k]][1]) & names and _same_name(stack[k], i):
                    pos = k
                    break
            doc.append("[/%s]" % rng.choice(VOCAB[stack[pos]][1]))
            kinds["close_top" if pos == len(stack) - 1 else "close_inner"] += 1
            del stack[pos]
    return {"doc": "".join(doc), "plain": "".join(plain), "layers": layers, "invalid": invalid,
            "kinds": kinds, "unclosed": len(stack) if not invalid else 0}


def _same_name(i, j):
    """Two vocabulary entries close by the same normalised name."""
    return VOCAB[i][1] == VOCAB[j][1]
