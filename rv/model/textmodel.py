"""Reference model of a styled text: a list of (char, layers) plus a base style record.

`layers` is the ordered tuple of style expectation records applied on top of the base, or None
for "don't care" (a character newly created by padding / truncation / tab expansion, whose style
the property does not constrain).  Operations follow ordinary *string* semantics.
"""
from rv.model import cellref
from rv.model import textview as TV

STRIP = "\b\v\f\r"


def strip_controls(s):
    return "".join(c for c in s if c not in STRIP)


class TM:
    def __init__(self, chars=None, base=None, tab=8, overflow=None):
        self.chars = list(chars or [])   # [(ch, layers|None)]
        self.base = base                 # record or None
        self.tab = tab                   # the text's own tab size (what expand_tabs() without an argument uses)
        self.overflow = overflow         # the text's own overflow method (what truncate() / align() without one use)

    @classmethod
    def from_str(cls, s, base=None, layer=None, strip=True):
        if strip:
            s = strip_controls(s)
        layers = () if layer is None else (layer,)
        return cls([(c, layers) for c in s], base)

    def copy(self):
        return TM(list(self.chars), self.base, self.tab, self.overflow)

    @property
    def plain(self):
        return "".join(c for c, _ in self.chars)

    def __len__(self):
        return len(self.chars)

    def expected_vis(self):
        out = []
        for ch, layers in self.chars:
            if layers is None:
                out.append((ch, None))
            else:
                recs = ([self.base] if self.base is not None else []) + list(layers)
                out.append((ch, TV.vis_of_record(TV.fold_records(recs))))
        return out

    # --- mutators ------------------------------------------------------------------------
    def stylize(self, rec, start=0, end=None):
        idx = range(len(self.chars))[slice(start, end)]
        for i in idx:
            ch, layers = self.chars[i]
            if layers is not None:
                self.chars[i] = (ch, layers + (rec,))

    def stylize_range(self, rec, a, b):
        for i in range(max(a, 0), min(b, len(self.chars))):
            ch, layers = self.chars[i]
            if layers is not None:
                self.chars[i] = (ch, layers + (rec,))

    def append_str(self, s, rec=None, strip=True):
        if strip:
            s = strip_controls(s)
        layers = () if rec is None else (rec,)
        self.chars.extend((c, layers) for c in s)

    def append_tm(self, other):
        """Appending a Text: its base style applies to its characters first, then its spans."""
        for ch, layers in other.chars:
            if layers is None:
                self.chars.append((ch, None))
            else:
                pre = (other.base,) if other.base is not None else ()
                self.chars.append((ch, pre + layers))

    def pad_left(self, n, character=" "):
        self.chars[0:0] = [(character, None)] * n

    def pad_right(self, n, character=" "):
        self.chars.extend([(character, None)] * n)

    def crop_to(self, n_chars):
        del self.chars[n_chars:]

    def cells(self):
        return cellref.width(self.plain)

    def set_cell_size(self, total):
        """Crop / pad to `total` cells like a string resized to a cell count: a prefix of the
        original followed by spaces (a wide character cut in half becomes one space)."""
        total = max(total, 0)
        cur = self.cells()
        if cur < total:
            self.pad_right(total - cur)
            return
        w = 0
        keep = 0
        for ch, _ in self.chars:
            cw = cellref.char_width(ch)
            if w + cw > total:
                break
            w += cw
            keep += 1
        # zero-width characters directly after the cut point are kept or dropped at the real
        # implementation's discretion; the model keeps those that precede the first dropped
        # positive-width character (as a string resized from the right would)
        del self.chars[keep:]
        if w < total:
            self.pad_right(total - w)

    def truncate(self, max_width, overflow="fold", pad=False):
        if overflow == "ignore":
            return
        length = self.cells()
        if length > max_width:
            if overflow == "ellipsis":
                self.set_cell_size(max_width - 1)
                self.chars.append(("…", None))
            else:
                self.set_cell_size(max_width)
        if pad and length < max_width:
            self.pad_right(max_width - length)

    def expand_tabs(self, tab_size):
        out = []
        col = 0
        for ch, layers in self.chars:
            if ch == "\t":
                n = tab_size - (col % tab_size)
                out.extend([(" ", None)] * n)
                col += n
            elif ch in "\n\r":
                out.append((ch, layers))
                col = 0
            else:
                out.append((ch, layers))
                col += 1
        self.chars = out

    def rstrip(self):
        n = len(self.plain.rstrip())
        del self.chars[n:]

    def pieces(self, bounds):
        return [TM(self.chars[a:b] if a <= b else [], self.base, self.tab, self.overflow) for a, b in bounds]


def split_bounds(s, sep, include_separator, allow_blank):
    """Index ranges of str.split(sep) pieces (optionally each including its separator)."""
    bounds = []
    pos = 0
    while True:
        i = s.find(sep, pos)
        if i < 0:
            bounds.append((pos, len(s)))
            break
        bounds.append((pos, i + len(sep) if include_separator else i))
        pos = i + len(sep)
    # without allow_blank a final EMPTY piece is dropped (what str.splitlines-like callers want); a final piece that
    # merely ends in characters of the separator ("aaa" split at "aa" -> "", "a") is content and stays
    if not allow_blank and len(bounds) > 1 and bounds[-1][0] == bounds[-1][1]:
        bounds.pop()
    return bounds


def selftest():
    m = TM.from_str("a\tb")
    m.expand_tabs(8)
    assert m.plain == "a\tb".expandtabs(8)
    m = TM.from_str("ab\tc\n\td")
    m.expand_tabs(4)
    assert m.plain == "ab\tc\n\td".expandtabs(4)
    assert split_bounds("a\n\nb", "\n", False, False) == [(0, 1), (2, 2), (3, 4)]
    assert split_bounds("a\n", "\n", False, False) == [(0, 1)]
    assert split_bounds("a\n", "\n", False, True) == [(0, 1), (2, 2)]
    assert split_bounds("aaa", "aa", False, False) == [(0, 0), (2, 3)]
    assert split_bounds("a\nb\n", "\n", True, False) == [(0, 2), (2, 4)]
