"""An independent SGR / OSC-8 terminal model, written from ECMA-48 and the OSC 8 hyperlink note
(not from rich/ansi.py or rich/style.py).

decode(stream) -> Decoded with
  chars:      [(char, attrs frozenset, fg, bg, link)]   fg/bg: None | ("idx", n) | ("rgb", (r,g,b))
  controls:   [sequence]   recognised non-SGR control functions (cursor movement, erase, BEL ...)
  unexpected: [sequence]   anything else that starts with ESC, or malformed SGR parameters
  color_params: number of SGR parameters in the colour ranges that were seen
"""
import re

SET = {1: "bold", 2: "dim", 3: "italic", 4: "underline", 5: "blink", 6: "blink2", 7: "reverse",
       8: "conceal", 9: "strike", 21: "underline2", 51: "frame", 52: "encircle", 53: "overline"}
CLEAR = {22: ("bold", "dim"), 23: ("italic",), 24: ("underline", "underline2"),
         25: ("blink", "blink2"), 27: ("reverse",), 28: ("conceal",), 29: ("strike",),
         54: ("frame", "encircle"), 55: ("overline",)}

_CSI = re.compile(r"\x1b\[([0-9;:<=>?]*)([ -/]*)([@-~])")
_OSC = re.compile(r"\x1b\](.*?)(\x1b\\|\x07)", re.S)


class Decoded:
    def __init__(self):
        self.chars = []
        self.controls = []
        self.unexpected = []
        self.color_params = 0
        self.sgr_count = 0
        self.osc8_count = 0
        self.final_state = None

    @property
    def text(self):
        return "".join(c[0] for c in self.chars)


class State:
    __slots__ = ("attrs", "fg", "bg", "link")

    def __init__(self):
        self.attrs = set()
        self.fg = None
        self.bg = None
        self.link = None

    def snapshot(self):
        return (frozenset(self.attrs), self.fg, self.bg, self.link)

    def is_default(self):
        return not self.attrs and self.fg is None and self.bg is None and self.link is None


def apply_sgr(state, params_text, out):
    """Apply one CSI ... m."""
    if params_text == "":
        params = [0]
    else:
        parts = params_text.split(";")
        params = []
        for p in parts:
            if p == "":
                params.append(0)
            elif p.isascii() and p.isdigit():
                params.append(int(p))
            else:
                out.unexpected.append("CSI %s m (non-numeric parameter)" % params_text)
                return
    i = 0
    n = len(params)
    while i < n:
        p = params[i]
        if p == 0:
            state.attrs.clear()
            state.fg = None
            state.bg = None
        elif p in SET:
            state.attrs.add(SET[p])
        elif p in CLEAR:
            for a in CLEAR[p]:
                state.attrs.discard(a)
        elif 30 <= p <= 37:
            state.fg = ("idx", p - 30)
            out.color_params += 1
        elif 90 <= p <= 97:
            state.fg = ("idx", p - 90 + 8)
            out.color_params += 1
        elif 40 <= p <= 47:
            state.bg = ("idx", p - 40)
            out.color_params += 1
        elif 100 <= p <= 107:
            state.bg = ("idx", p - 100 + 8)
            out.color_params += 1
        elif p == 39:
            state.fg = None
            out.color_params += 1
        elif p == 49:
            state.bg = None
            out.color_params += 1
        elif p in (38, 48):
            out.color_params += 1
            if i + 1 >= n:
                out.unexpected.append("CSI %s m (truncated extended colour)" % params_text)
                return
            mode = params[i + 1]
            if mode == 5:
                if i + 2 >= n or not (0 <= params[i + 2] <= 255):
                    out.unexpected.append("CSI %s m (bad 256-colour index)" % params_text)
                    return
                col = ("idx", params[i + 2])
                i += 2
            elif mode == 2:
                if i + 4 >= n or not all(0 <= v <= 255 for v in params[i + 2:i + 5]):
                    out.unexpected.append("CSI %s m (bad rgb colour)" % params_text)
                    return
                col = ("rgb", tuple(params[i + 2:i + 5]))
                i += 4
            else:
                out.unexpected.append("CSI %s m (unknown extended colour mode)" % params_text)
                return
            if p == 38:
                state.fg = col
            else:
                state.bg = col
        else:
            out.unexpected.append("CSI %s m (parameter %d)" % (params_text, p))
        i += 1


# recognised non-SGR control functions: final bytes of cursor movement / erase / mode set
_CONTROL_FINALS = set("ABCDEFGHJKSTfhlsu")
_C0_CONTROLS = {"\x07", "\r", "\x08"}


def decode(stream, state=None):
    out = Decoded()
    st = state or State()
    i = 0
    n = len(stream)
    while i < n:
        ch = stream[i]
        if ch == "\x1b":
            m = _CSI.match(stream, i)
            if m:
                params, inter, final = m.groups()
                if final == "m" and not inter and not (params[:1] in ("<", "=", ">", "?")):
                    out.sgr_count += 1
                    apply_sgr(st, params, out)
                elif final in _CONTROL_FINALS:
                    out.controls.append(m.group(0))
                else:
                    out.unexpected.append(m.group(0))
                i = m.end()
                continue
            m = _OSC.match(stream, i)
            if m:
                body = m.group(1)
                if body.startswith("8;"):
                    out.osc8_count += 1
                    _params, sep, uri = body[2:].partition(";")
                    if not sep:
                        out.unexpected.append(m.group(0))
                    else:
                        st.link = uri or None
                else:
                    out.unexpected.append(m.group(0))
                i = m.end()
                continue
            out.unexpected.append(stream[i:i + 8])
            i += 1
            continue
        if ch in _C0_CONTROLS:
            out.controls.append(ch)
            i += 1
            continue
        a, fg, bg, link = st.snapshot()
        out.chars.append((ch, a, fg, bg, link))
        i += 1
    out.final_state = st.snapshot()
    return out


def selftest():
    d = decode("\x1b[1;31mhi\x1b[0m x\x1b[38;5;200;48;2;1;2;3my\x1b[m")
    assert d.text == "hi xy"
    assert d.chars[0][1:] == (frozenset({"bold"}), ("idx", 1), None, None)
    assert d.chars[2][1:] == (frozenset(), None, None, None)
    assert d.chars[4][1:] == (frozenset(), ("idx", 200), ("rgb", (1, 2, 3)), None)
    assert d.final_state == (frozenset(), None, None, None) and not d.unexpected
    d = decode("\x1b]8;id=1;http://a\x1b\\L\x1b]8;;\x1b\\n\x1b[2K\x1b[1A\x1b[?25l")
    assert d.chars[0][4] == "http://a" and d.chars[1][4] is None and len(d.controls) == 3
    assert decode("\x1b[91;103mz").chars[0][2:4] == (("idx", 9), ("idx", 11))
    assert decode("\x1b[³mz").unexpected and decode("\x1bQ").unexpected
    # literal strings from the repository's own tests (tests/test_console.py)
    d = decode("\x1b[94mfoo\x1b[0m\n")
    assert d.chars[0][2] == ("idx", 12)
    d = decode("\x1b[38;2;255;0;0;48;2;0;0;255mfoo\x1b[0m")
    assert d.chars[0][2:4] == (("rgb", (255, 0, 0)), ("rgb", (0, 0, 255)))
