"""Independent reference for colour down-conversion (C18) and SGR colour parameters."""


def xterm256():
    """The xterm 256-colour palette from its definition (not from rich/_palettes.py):
    0-15 system colours (xterm defaults), 16-231 6x6x6 cube with levels 0,95,135,175,215,255,
    232-255 grey ramp 8+10*i."""
    sys16 = [(0, 0, 0), (128, 0, 0), (0, 128, 0), (128, 128, 0), (0, 0, 128), (128, 0, 128),
             (0, 128, 128), (192, 192, 192), (128, 128, 128), (255, 0, 0), (0, 255, 0),
             (255, 255, 0), (0, 0, 255), (255, 0, 255), (0, 255, 255), (255, 255, 255)]
    levels = [0, 95, 135, 175, 215, 255]
    cube = [(levels[r], levels[g], levels[b]) for r in range(6) for g in range(6) for b in range(6)]
    grey = [(8 + 10 * i,) * 3 for i in range(24)]
    return sys16 + cube + grey


def dist2(c1, c2):
    """Rich's documented weighted-RGB ('redmean') metric, squared, integer arithmetic as in the
    low-cost approximation: ((512+rm)*dr^2)>>8 + 4*dg^2 + ((767-rm)*db^2)>>8."""
    r1, g1, b1 = c1
    r2, g2, b2 = c2
    rm = (r1 + r2) // 2
    dr, dg, db = r1 - r2, g1 - g2, b1 - b2
    return (((512 + rm) * dr * dr) >> 8) + 4 * dg * dg + (((767 - rm) * db * db) >> 8)


def min_dist2(color, palette):
    return min(dist2(color, p) for p in palette)


def sgr_params(kind, number=None, triplet=None, foreground=True):
    """Standard SGR parameters for a colour of a given kind."""
    if kind == "default":
        return ("39",) if foreground else ("49",)
    if kind in ("standard", "windows"):
        if number < 8:
            return (str((30 if foreground else 40) + number),)
        return (str((90 if foreground else 100) + number - 8),)
    if kind == "eight_bit":
        return ("38" if foreground else "48", "5", str(number))
    if kind == "truecolor":
        r, g, b = triplet
        return ("38" if foreground else "48", "2", str(r), str(g), str(b))
    raise ValueError(kind)



def to_256(r, g, b):
    """The documented truecolor -> 256 rule (the comment in Color.downgrade: "if saturation is under 10% assume it is
    grayscale"): HLS saturation below 0.1 goes to black / the 24-step grey ramp / white by lightness, everything else
    to the 6x6x6 cube by rounding each channel to fifths.  Written with the standard library's colorsys on the same
    normalised floats, so that the boundary s == 0.1 falls where the rule says (not under 10% -> cube)."""
    import colorsys
    red, green, blue = r / 255.0, g / 255.0, b / 255.0
    _h, l, s = colorsys.rgb_to_hls(red, green, blue)
    if s < 0.1:
        gray = round(l * 25.0)
        return 16 if gray == 0 else 231 if gray == 25 else 231 + gray
    return 16 + 36 * round(red * 5.0) + 6 * round(green * 5.0) + round(blue * 5.0)


def saturation_boundary_colours(tol=1e-12):
    """All (r, g, b) whose HLS saturation is 0.1 up to `tol`, and their neighbours in saturation: the colours that
    tell `<` from `<=` in the grey test.  Saturation depends on the largest and smallest channel only."""
    import colorsys
    out = []
    for mx in range(256):
        for mn in range(mx):
            s = colorsys.rgb_to_hls(mx / 255.0, mn / 255.0, mn / 255.0)[2]
            if abs(s - 0.1) <= tol:
                for mid in sorted({mn, mx, (mn + mx) // 2}):
                    out.extend({(mx, mid, mn), (mn, mid, mx), (mid, mx, mn), (mid, mn, mx), (mx, mn, mid), (mn, mx, mid)})
    return sorted(set(out))


def selftest():
    p = xterm256()
    assert len(p) == 256 and p[16] == (0, 0, 0) and p[231] == (255, 255, 255) and p[232] == (8, 8, 8)
    assert p[255] == (238, 238, 238) and p[21] == (0, 0, 255)
    assert sgr_params("standard", 9) == ("91",) and sgr_params("standard", 1, foreground=False) == ("41",)
