"""A VT100-subset screen model (xterm behaviour), independent of Rich.

Rows of cells with scrollback and a viewport of `height` rows.  Understood: printable characters (width from
the reference table, deferred wrap at the last column), LF (with the tty's ONLCR translation: LF = CR+LF;
scrolls at the bottom), CR, BEL, BS, CSI n A (clamped to the viewport top), CSI n B, CSI 2K / 0K / K,
CSI 2J, CSI H, CSI ?25 h/l, SGR and OSC 8 (skipped - styles are not part of the screen invariant).
Anything else is collected in `unknown` (an error of the *workload*, i.e. inconclusive - not of Rich).
"""
import re

from rv.model import cellref

_CSI = re.compile(r"\x1b\[([0-9;?]*)([ -/]*)([@-~])")
_OSC = re.compile(r"\x1b\](.*?)(\x1b\\|\x07)", re.S)


class Screen:
    def __init__(self, width=80, height=25):
        self.width = width
        self.height = height
        self.rows = [[]]            # each row: list of (char) cells; a wide char occupies [ch, ""]
        self.row = 0
        self.col = 0
        self.cursor_visible = True
        self.pending_wrap = False
        self.unknown = []
        self.cursor_above_top = 0   # number of times a cursor-up was clamped at the viewport top
        self.min_row_touched = 0
        self.events = 0

    # -- geometry ---------------------------------------------------------------------------------
    @property
    def top(self):
        return max(0, len(self.rows) - self.height)

    def _ensure_row(self, r):
        while len(self.rows) <= r:
            self.rows.append([])

    def _linefeed(self):
        self.row += 1
        self._ensure_row(self.row)
        self.pending_wrap = False

    def _put(self, ch):
        w = cellref.char_width(ch)
        if w == 0:
            # combining: attach to the previous cell if any
            row = self.rows[self.row]
            c = self.col - 1
            while c >= 0 and c < len(row) and row[c] == "":
                c -= 1
            if 0 <= c < len(row):
                row[c] += ch
            return
        if self.pending_wrap or self.col + w > self.width:
            self._linefeed()
            self.col = 0
        row = self.rows[self.row]
        while len(row) < self.col + w:
            row.append(" ")
        row[self.col] = ch
        if w == 2:
            row[self.col + 1] = ""
        self.col += w
        if self.col >= self.width:
            self.col = self.width - 1 if w == 1 else self.width - 1
            self.pending_wrap = True

    # -- input ------------------------------------------------------------------------------------
    def feed(self, data):
        i = 0
        n = len(data)
        while i < n:
            ch = data[i]
            self.events += 1
            if ch == "\x1b":
                m = _CSI.match(data, i)
                if m:
                    self._csi(m.group(1), m.group(3), m.group(0))
                    i = m.end()
                    continue
                m = _OSC.match(data, i)
                if m:
                    i = m.end()
                    continue
                self.unknown.append(data[i:i + 6])
                i += 1
                continue
            if ch == "\n":
                self._linefeed()
                self.col = 0          # ONLCR
            elif ch == "\r":
                self.col = 0
                self.pending_wrap = False
            elif ch == "\x07":
                pass
            elif ch == "\x08":
                self.col = max(0, self.col - 1)
                self.pending_wrap = False
            elif ord(ch) < 32 or 127 <= ord(ch) < 160:
                self.unknown.append(repr(ch))
            else:
                self._put(ch)
            i += 1

    def _csi(self, params, final, raw):
        if final == "m":
            return
        if params.startswith("?"):
            if params == "?25" and final in "hl":
                self.cursor_visible = final == "h"
            else:
                self.unknown.append(raw)
            return
        nums = [int(p) if p.isdigit() else 0 for p in params.split(";")] if params else []
        n = nums[0] if nums and nums[0] else 1
        self.pending_wrap = False
        if final == "A":
            target = self.row - n
            if target < self.top:
                self.cursor_above_top += 1
                target = self.top
            self.row = target
        elif final == "B":
            self.row = min(self.row + n, self.top + self.height - 1)
            self._ensure_row(self.row)
        elif final == "K":
            mode = nums[0] if nums else 0
            row = self.rows[self.row]
            if mode == 2:
                del row[:]
            elif mode == 0:
                del row[self.col:]
            elif mode == 1:
                for c in range(min(self.col + 1, len(row))):
                    row[c] = " "
            self.min_row_touched = min(self.min_row_touched, self.row)
        elif final == "J":
            mode = nums[0] if nums else 0
            if mode == 2:
                for r in range(self.top, len(self.rows)):
                    del self.rows[r][:]
            else:
                self.unknown.append(raw)
        elif final == "H":
            self.row = self.top + (nums[0] - 1 if nums and nums[0] else 0)
            self.col = (nums[1] - 1) if len(nums) > 1 and nums[1] else 0
            self._ensure_row(self.row)
        else:
            self.unknown.append(raw)

    # -- observation ------------------------------------------------------------------------------
    def lines(self):
        """Transcript: all rows (scrollback + screen) as strings, right-stripped, trailing blank rows dropped."""
        out = ["".join(c for c in row).rstrip() for row in self.rows]
        while out and not out[-1]:
            out.pop()
        return out


def selftest():
    s = Screen(10, 3)
    s.feed("ab\ncd")
    assert s.lines() == ["ab", "cd"]
    s.feed("\r\x1b[2K\x1b[1A\x1b[2Kxy\n")
    assert s.lines() == ["xy"], s.lines()
    s = Screen(4, 2)
    s.feed("abcd\nef\ngh\n")
    assert s.lines() == ["abcd", "ef", "gh"] and s.top == 2
    s.feed("\x1b[5A")
    assert s.row == s.top and s.cursor_above_top == 1
    s = Screen(4, 5)
    s.feed("漢字\nx")
    assert s.lines() == ["漢字", "x"]
    s = Screen(3, 5)
    s.feed("abcd")
    assert s.lines() == ["abc", "d"]
    s.feed("\x1b[?25l")
    assert not s.cursor_visible
    # literal bytes from tests/test_live.py style sessions: frame redraw
    s = Screen(20, 6)
    s.feed("\x1b[?25lframe1\r\x1b[2Kprinted\nframe2")
    assert s.lines() == ["printed", "frame2"]
