"""Proxies that make blocking visible to the cooperative scheduler, and the recording file."""
import threading

from .scheduler import MThread, SchedAbort


class CoopRLock:
    """Re-entrant lock whose acquire/release are yield points and whose waiters are known."""

    def __init__(self, sched, label="lock", reentrant=True):
        self.sched = sched
        self.label = label
        self.owner = None
        self.count = 0
        self.reentrant = reentrant
        self.acquisitions = []      # (step, thread name) - order in which the lock was taken (outermost only)
        self._fallback = threading.RLock()

    def _managed(self):
        s = self.sched
        if s is None or not s.active or s.aborted:
            return None
        return s.me()

    def acquire(self, blocking=True, timeout=-1):
        me = self._managed()
        if me is None:
            if self.sched is not None and self.sched.aborted and self.sched.me() is not None:
                # unwinding after an abort: never block
                self.count += 1
                return True
            return self._fallback.acquire(blocking, timeout)
        self.sched.yield_point("lock.acquire", self.label)
        while True:
            if self.owner is None:
                self.owner = me
                self.count = 1
                self.acquisitions.append((self.sched.step, me.name))
                return True
            if self.owner is me and self.reentrant:
                self.count += 1
                return True
            if not blocking:
                return False
            self.sched.block(me, ("lock", self))

    def release(self):
        s = self.sched
        me = s.me() if s is not None else None
        if me is None or not s.active:
            if s is not None and s.aborted and me is not None:
                self.count = max(0, self.count - 1)
                return
            try:
                self._fallback.release()
            except RuntimeError:
                pass
            return
        if s.aborted:
            self.count = max(0, self.count - 1)
            return
        if self.owner is not me:
            raise RuntimeError("release of un-acquired lock %s by %s" % (self.label, me.name))
        self.count -= 1
        if self.count == 0:
            self.owner = None
            s.unblock(lambda on: on[0] == "lock" and on[1] is self)
            s.yield_point("lock.release", self.label)

    def held_by_me(self):
        s = self.sched
        return s is not None and self.owner is not None and self.owner is s.me()

    def __enter__(self):
        self.acquire()
        return self

    def __exit__(self, *exc):
        self.release()

    # threading.RLock API used by Condition etc. is not needed here


class CoopEvent:
    """threading.Event whose wait(timeout) is a timer the scheduler may fire a bounded number of times."""

    def __init__(self, sched, label="event", max_firings=3):
        self.sched = sched
        self.label = label
        self.flag = False
        self.firings_left = max_firings
        self.total_firings = 0

    def is_set(self):
        return self.flag

    def set(self):
        self.flag = True
        s = self.sched
        if s is not None and s.active and not s.aborted:
            s.unblock(lambda on: on[0] == "event" and on[1] is self)
            s.yield_point("event.set", self.label)

    def clear(self):
        self.flag = False

    def wait(self, timeout=None):
        s = self.sched
        me = s.me() if s is not None else None
        if me is None or not s.active:
            return self.flag
        if s.aborted:
            raise SchedAbort()
        s.yield_point("event.wait", self.label)
        if self.flag:
            return True
        if timeout is not None and self.firings_left <= 0:
            timeout = None          # the timer has fired as often as this run allows: now it only reacts to set()
        me.timed_wait = self if timeout is not None else None
        me.timer_fired = False
        try:
            s.block(me, ("event", self))
        finally:
            me.timed_wait = None
        if self.flag:
            return True
        if getattr(me, "timer_fired", False):
            self.total_firings += 1
            return False
        return self.flag


def patch_thread_class(cls, sched_getter):
    """Make start()/join() of a threading.Thread subclass cooperative (deterministic registration in start(),
    join() that the scheduler can see)."""
    if getattr(cls, "_rv_patched", False):
        return

    orig_start = threading.Thread.start
    orig_join = threading.Thread.join

    def start(self):
        s = sched_getter()
        if s is None or not s.active or s.me() is None:
            return orig_start(self)
        run = self.run
        name = "%s-%d" % (type(self).__name__, len(s.threads))
        self._rv_mthread = s.spawn(name, run, real_thread=self)
        s.yield_point("thread.start", name)

    def join(self, timeout=None):
        s = sched_getter()
        mt = getattr(self, "_rv_mthread", None)
        me = s.me() if s is not None else None
        if s is None or mt is None or me is None or not s.active:
            if mt is not None and s is not None and s.aborted:
                return
            return orig_join(self, timeout)
        if s.aborted:
            raise SchedAbort()
        s.yield_point("thread.join", mt.name)
        while not mt.finished:
            s.block(me, ("join", mt))

    cls.start = start
    cls.join = join
    cls._rv_patched = True


class RecordingFile:
    """A text file object that records every write() with the calling thread and the logical time."""

    def __init__(self, sched=None, encoding="utf-8", tty=True):
        self.sched = sched
        self.encoding = encoding
        self.writes = []        # (step, thread name, text)
        self._tty = tty

    def isatty(self):
        return self._tty

    def write(self, text):
        s = self.sched
        name = "main"
        step = 0
        if s is not None:
            me = s.me()
            if me is not None:
                name = me.name
            step = s.step
            if s.active and not s.aborted:
                s.yield_point("file.write", None)
        self.writes.append((step, name, text))
        return len(text)

    def flush(self):
        pass

    def getvalue(self):
        return "".join(w[2] for w in self.writes)
