"""A cooperative scheduler for real threads.

Exactly one managed thread holds the baton.  Yield points are: sys.monitoring LINE (and, for selected code
objects, INSTRUCTION) events in chosen modules, every operation of the lock / event / thread proxies in
rv.sched.coop, and every write() on the recording file.  At a yield point a seeded strategy decides who runs
next, so a schedule is a replayable list of choices.  A thread blocked on a proxy is disabled; when nobody is
enabled and somebody is unfinished the scheduler records a deadlock (with the wait-for edges) and aborts the
schedule.  A wall-clock watchdog around the whole schedule only ever yields "inconclusive".
"""
import random
import sys
import threading
import traceback

TOOL_ID = 4


class SchedAbort(BaseException):
    """Raised inside managed threads to unwind them when a schedule is aborted."""


class MThread:
    def __init__(self, sched, name, target):
        self.sched = sched
        self.name = name
        self.target = target
        self.resume = threading.Event()
        self.finished = False
        self.blocked_on = None      # None | ("lock", obj) | ("event", obj) | ("join", mthread)
        self.timed_wait = None      # None | CoopEvent (thread sits in wait(timeout): scheduling it = timer fires)
        self.exc = None
        self.real = None
        self.priority = 0
        self.steps = 0
        self.in_sched = False       # inside the scheduler's own code: yield points met there are not scheduling points

    def __repr__(self):
        return "<MThread %s>" % self.name


class Strategy:
    def choose(self, sched, current, enabled, kind):
        raise NotImplementedError


class RandomWalk(Strategy):
    def __init__(self, seed, switch_prob=0.2):
        self.rng = random.Random(seed)
        self.p = switch_prob

    def choose(self, sched, current, enabled, kind):
        if current in enabled and self.rng.random() > self.p:
            return current
        return self.rng.choice(enabled)


class PCT(Strategy):
    """Probabilistic concurrency testing (Burckhardt et al.): random priorities, d-1 priority change points."""

    def __init__(self, seed, depth=3, est_steps=400):
        self.rng = random.Random(seed)
        self.depth = depth
        self.change_points = sorted(self.rng.randint(1, max(2, est_steps)) for _ in range(max(0, depth - 1)))
        self.low = 0

    def on_spawn(self, sched, t):
        t.priority = self.rng.random() + 1.0

    def choose(self, sched, current, enabled, kind):
        while self.change_points and sched.step >= self.change_points[0]:
            self.change_points.pop(0)
            if current is not None:
                self.low -= 1
                current.priority = self.low
        return max(enabled, key=lambda t: t.priority)


class Replay(Strategy):
    def __init__(self, choices):
        self.choices = list(choices)
        self.i = 0

    def choose(self, sched, current, enabled, kind):
        if self.i < len(self.choices):
            name = self.choices[self.i]
            self.i += 1
            for t in enabled:
                if t.name == name:
                    return t
        return current if current in enabled else enabled[0]


class Scheduler:
    def __init__(self, strategy, max_steps=200000, record_choices=True):
        self.strategy = strategy
        self.threads = []
        self.current = None
        self.step = 0
        self.max_steps = max_steps
        self.aborted = False
        self.deadlock = None
        self.choices = [] if record_choices else None
        self.switches = 0
        self.done = threading.Event()
        self.errors = []
        self.events = []          # (step, thread, kind, info) trace of coarse events
        self.active = False
        self.by_ident = {}
        self.yield_counts = {}

    # ---- thread management -------------------------------------------------------------------
    def spawn(self, name, target, real_thread=None):
        caller = self.me()
        if caller is not None and not caller.in_sched:
            caller.in_sched = True
            try:
                return self.spawn(name, target, real_thread)
            finally:
                caller.in_sched = False
        t = MThread(self, name, target)

        def runner():
            self.by_ident[threading.get_ident()] = t
            t.resume.wait()
            t.resume.clear()
            try:
                if not self.aborted:
                    target()
            except SchedAbort:
                pass
            except BaseException as e:      # an exception escaping a managed thread is an observation
                t.exc = e
                self.errors.append((t.name, repr(e), traceback.format_exc(limit=-8)))
            finally:
                t.finished = True
                self._thread_exit(t)
        if real_thread is None:
            real_thread = threading.Thread(target=runner, name="rv-" + name, daemon=True)
        else:
            real_thread.run = runner
            real_thread.daemon = True
        t.real = real_thread
        # registered only when its real thread runs: creating and starting the Thread object runs arbitrary code (garbage collection may finalise a
        # FileProxy of an earlier case, whose flush() passes yield points) - a thread that is on the list before its
        # real thread exists could be handed the baton and never take it
        threading.Thread.start(real_thread)      # (it waits for the baton in runner())
        on_spawn = getattr(self.strategy, "on_spawn", None)
        if on_spawn:
            on_spawn(self, t)
        self.threads.append(t)
        return t

    def me(self):
        return self.by_ident.get(threading.get_ident())

    def enabled(self):
        out = []
        for t in self.threads:
            if t.finished:
                continue
            if t.blocked_on is None:
                out.append(t)
            elif t.timed_wait is not None and t.timed_wait.firings_left > 0:
                out.append(t)       # scheduling it = its timer fires
        return out

    def run(self, timeout=30.0):
        """Called by the (unmanaged) main thread: start the schedule and wait for it to finish."""
        import gc
        # cyclic garbage of earlier cases (a FileProxy's finaliser calls its flush(), instrumented code) is collected
        # now and not at a random point of this schedule: schedules stay reproducible from their seed
        gc.collect()
        gc_was = gc.isenabled()
        gc.disable()
        try:
            self.active = True
            first = self._pick(None, "start")
            if first is not None:
                self._handover(None, first)
            ok = self.done.wait(timeout)
            self.active = False
        finally:
            if gc_was:
                gc.enable()
        if not ok:
            self.aborted = True
            return "watchdog"
        return "deadlock" if self.deadlock else "finished"

    # ---- core ---------------------------------------------------------------------------------
    def _pick(self, current, kind):
        en = self.enabled()
        if not en:
            return None
        nxt = self.strategy.choose(self, current, en, kind)
        if self.choices is not None:
            self.choices.append(nxt.name)
        return nxt

    def _handover(self, me, nxt):
        """Give the baton to nxt; if me is a live thread, wait until it gets the baton back."""
        if nxt is me:
            return
        self.switches += 1
        self.current = nxt
        if nxt.timed_wait is not None and nxt.blocked_on is not None:
            # its timer fires
            nxt.timed_wait.firings_left -= 1
            nxt.timer_fired = True
            nxt.blocked_on = None
        nxt.resume.set()
        if me is not None and not me.finished:
            me.resume.wait()
            me.resume.clear()
            if self.aborted:
                raise SchedAbort()

    def yield_point(self, kind, info=None):
        if not self.active or self.aborted:
            if self.aborted and self.me() is not None and not self.me().finished:
                raise SchedAbort()
            return
        me = self.me()
        if me is None or me is not self.current or me.in_sched:
            # (in_sched: instrumented code reached from INSIDE the scheduler - a garbage collection that finalises a
            # FileProxy of an earlier case runs its flush() wherever it happens to strike, e.g. in the middle of
            # _pick; a nested hand-over there would leave the outer one with a stale choice)
            return
        me.in_sched = True
        try:
            self.step += 1
            me.steps += 1
            self.yield_counts[kind] = self.yield_counts.get(kind, 0) + 1
            if self.step > self.max_steps:
                self._abort("step budget exhausted")
                raise SchedAbort()
            nxt = self._pick(me, kind)
            if nxt is not None and nxt is not me:
                self._handover(me, nxt)
        finally:
            me.in_sched = False

    def block(self, me, on):
        """me cannot continue until `on` changes; schedule somebody else."""
        me.blocked_on = on
        was, me.in_sched = me.in_sched, True
        try:
            while me.blocked_on is not None:
                if self.aborted:
                    raise SchedAbort()
                self.step += 1
                nxt = self._pick(me, "block")
                if nxt is None:
                    self._deadlock()
                    raise SchedAbort()
                if nxt is me:           # only possible through a firing timer
                    if me.timed_wait is not None:
                        me.timed_wait.firings_left -= 1
                        me.timer_fired = True
                    me.blocked_on = None
                    break
                self._handover(me, nxt)
        finally:
            me.in_sched = was

    def unblock(self, predicate):
        for t in self.threads:
            if t.blocked_on is not None and predicate(t.blocked_on):
                t.blocked_on = None
                t.timer_fired = False

    def _thread_exit(self, t):
        t.in_sched = True
        self.unblock(lambda on: on[0] == "join" and on[1] is t)
        if self.aborted:
            self._wake_all()
            return
        nxt = self._pick(None, "exit")
        if nxt is None:
            if all(x.finished for x in self.threads):
                self.done.set()
            else:
                self._deadlock()
            return
        self.current = nxt
        if nxt.timed_wait is not None and nxt.blocked_on is not None:
            nxt.timed_wait.firings_left -= 1
            nxt.timer_fired = True
            nxt.blocked_on = None
        nxt.resume.set()

    def _deadlock(self):
        edges = []
        for t in self.threads:
            if not t.finished and t.blocked_on is not None:
                kind, obj = t.blocked_on
                owner = getattr(obj, "owner", None)
                edges.append({"thread": t.name, "waits_for": kind,
                              "held_by": owner.name if isinstance(owner, MThread) else
                              (obj.name if isinstance(obj, MThread) else None),
                              "what": getattr(obj, "label", None)})
        self.deadlock = edges
        self._abort("deadlock")

    def _abort(self, why):
        self.aborted = True
        self.abort_reason = why
        self._wake_all()

    def _wake_all(self):
        alive = [t for t in self.threads if not t.finished]
        if not alive:
            self.done.set()
            return
        for t in alive:
            t.resume.set()

    def note(self, kind, info=None):
        me = self.me()
        self.events.append((self.step, me.name if me else "?", kind, info))


# ---- sys.monitoring instrumentation ---------------------------------------------------------------
_installed = {"sched": None, "codes": set(), "instr_codes": set(), "on": False, "core": set()}


def code_objects(module, names=None):
    """All code objects defined in a module (functions, methods, nested), optionally only qualnames in names."""
    import types
    seen = set()
    out = []

    def add(code):
        if code in seen:
            return
        seen.add(code)
        out.append(code)
        for c in code.co_consts:
            if isinstance(c, types.CodeType):
                add(c)
    fn = getattr(module, "__file__", None)
    for obj in list(vars(module).values()):
        if isinstance(obj, types.FunctionType) and obj.__code__.co_filename == fn:
            add(obj.__code__)
        elif isinstance(obj, type) and getattr(obj, "__module__", None) == module.__name__:
            for m in list(vars(obj).values()):
                f = getattr(m, "__func__", m)
                if isinstance(m, property):
                    for g in (m.fget, m.fset):
                        if g is not None:
                            add(g.__code__)
                elif isinstance(f, types.FunctionType):
                    add(f.__code__)
    if names is not None:
        out = [c for c in out if c.co_qualname in names]
    return out


def install(sched, line_codes, instr_codes=(), core_codes=()):
    """Enable LINE events on line_codes and LINE|INSTRUCTION on instr_codes, dispatching to sched.  LINE events in
    core_codes are reported with the kind "line.core" so that a systematic strategy can treat every line of a few
    anchor functions as a decision point while staying coarse elsewhere."""
    _installed["core"] = set(core_codes)
    mon = sys.monitoring
    if not _installed["on"]:
        try:
            mon.use_tool_id(TOOL_ID, "rv-sched")
        except ValueError:
            pass
        mon.register_callback(TOOL_ID, mon.events.LINE, _on_line)
        mon.register_callback(TOOL_ID, mon.events.INSTRUCTION, _on_instr)
        _installed["on"] = True
    _installed["sched"] = sched
    for c in line_codes:
        if c not in _installed["codes"]:
            mon.set_local_events(TOOL_ID, c, mon.events.LINE)
            _installed["codes"].add(c)
    for c in instr_codes:
        if c not in _installed["instr_codes"]:
            mon.set_local_events(TOOL_ID, c, mon.events.LINE | mon.events.INSTRUCTION)
            _installed["instr_codes"].add(c)
            _installed["codes"].add(c)


def uninstall():
    _installed["sched"] = None


def _on_line(code, line):
    s = _installed["sched"]
    if s is not None and s.active:
        s.yield_point("line.core" if code in _installed["core"] else "line", None)


def _on_instr(code, offset):
    s = _installed["sched"]
    if s is not None and s.active:
        s.yield_point("instr", None)


# ---- bounded-preemption systematic exploration ----------------------------------------------------
COARSE = {"lock.acquire", "lock.release", "file.write", "event.set", "event.wait", "thread.start", "thread.join",
          "block", "exit", "start"}


class PreemptAt(Strategy):
    """Non-preemptive by default (the running thread continues; when it cannot, the first enabled thread in spawn
    order runs) except at the listed coarse decision points, where the named thread is scheduled instead.
    Records every coarse decision point with its alternatives, so that a driver can enumerate all placements of
    up to c preemptions (CHESS-style iterative context bounding)."""

    def __init__(self, plan=(), kinds=COARSE):
        self.plan = dict(plan)
        self.points = []        # (index, running thread name or None, [enabled names])
        self.n = 0
        self.kinds = kinds      # None = every yield point (lines and instructions too) is a decision point

    def choose(self, sched, current, enabled, kind):
        default = current if (current is not None and current in enabled) else enabled[0]
        if self.kinds is not None and kind not in self.kinds:
            return default
        if len(enabled) == 1 and self.kinds is None:
            return default
        idx = self.n
        self.n += 1
        names = [t.name for t in enabled]
        self.points.append((idx, default.name, names))
        want = self.plan.get(idx)
        if want is not None:
            for t in enabled:
                if t.name == want:
                    return t
        return default


def explore_bounded(run, bound=1, max_runs=200, kinds=COARSE):
    """run(strategy) executes one schedule and returns anything; yields (plan, strategy, result) for the
    non-preemptive schedule and for every placement of up to `bound` alternative choices at coarse points,
    depth-first, up to max_runs schedules.  Returns through StopIteration whether the space was exhausted."""
    stack = [()]
    runs = 0
    while stack:
        if runs >= max_runs:
            return False
        plan = stack.pop()
        strat = PreemptAt(plan, kinds)
        result = run(strat)
        runs += 1
        yield plan, strat, result
        if len(plan) < bound:
            start = (plan[-1][0] + 1) if plan else 0
            for idx, running, names in strat.points:
                if idx < start:
                    continue
                for name in names:
                    if name != running:
                        stack.append(plan + ((idx, name),))
    return True
