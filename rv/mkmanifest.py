#!/venv/bin/python
"""Regenerates MANIFEST.json from the check modules' own metadata (so it is always valid)."""
import importlib
import json
import os
import sys

sys.dont_write_bytecode = True
HERE = os.path.dirname(os.path.abspath(__file__))
VERIF = os.path.dirname(HERE)
sys.path.insert(0, VERIF)
sys.path.insert(0, "/repo")

PY = "/venv/bin/python -B"


def main():
    props = [json.loads(l) for l in open(os.path.join(VERIF, "properties.jsonl")) if l.strip()]
    checks, na = [], []
    pending = json.load(open(os.path.join(HERE, "not_applicable.json")))
    for p in props:
        pid = p["id"]
        path = os.path.join(HERE, "checks", pid.lower() + ".py")
        if not os.path.exists(path) or pid in pending:
            na.append({"property_id": pid,
                       "reason": pending.get(pid, "monitor not built yet; designed in DESIGN.md section 4")})
            continue
        mod = importlib.import_module("rv.checks." + pid.lower())
        checks.append({
            "property_id": pid,
            "quick_cmd": "%s rv/run.py %s --tier quick" % (PY, pid),
            "thorough_cmd": "%s rv/run.py %s --tier thorough" % (PY, pid),
            "evidence_file": "/verif/evidence/%s.json" % pid,
            "replay_cmd_template": "%s rv/run.py %s --replay {path}" % (PY, pid),
            "engine": "rv",
            "level_claimed": {"category": mod.LEVEL, "text": mod.LEVEL_TEXT,
                              "design_ref": "DESIGN.md section 4, " + pid},
            "level_note": mod.LEVEL_NOTE,
            "technique": mod.TECHNIQUE,
        })
    hooks = json.load(open(os.path.join(HERE, "hooks.json")))
    manifest = {
        "version": 1,
        "setup_cmd": "/venv/bin/python -B rv/setup_check.py",
        "hooks": hooks,
        "engines": [{
            "name": "rv", "path": "/verif/rv",
            "serves_properties": [c["property_id"] for c in checks],
            "kind_free_text": "runtime monitoring: reference-model monitors, contracts on real "
                              "functions, recorded write histories, cooperative thread scheduler "
                              "on sys.monitoring; pure stdlib, runs the real code from /repo",
        }],
        "checks": checks,
        "not_applicable": na,
        "notes": "All checks run the real code in /repo's working tree under /venv/bin/python; "
                 "exit 0 held, 1 violated (VIOLATION line), 2 inconclusive (no VIOLATION line). "
                 "Known findings: /verif/known_findings.json.",
    }
    with open(os.path.join(VERIF, "MANIFEST.json"), "w") as f:
        json.dump(manifest, f, indent=1)
    print("MANIFEST.json: %d checks, %d not_applicable" % (len(checks), len(na)))


if __name__ == "__main__":
    main()
