"""Contracts on real functions, installed from the harness.

wrap_classmethod / wrap_function replace an attribute and every early-bound alias of it found by
an identity scan of sys.modules['rich.*'], count evaluations and run a post-condition on every call.
A contract with 0 evaluations makes the owning check inconclusive (the caller checks the counter).
"""
import functools
import sys


class ContractBroken(AssertionError):
    pass


def rebind_aliases(old, new):
    n = 0
    for name, mod in list(sys.modules.items()):
        if not name.startswith("rich") or mod is None:
            continue
        d = getattr(mod, "__dict__", {})
        for k, v in list(d.items()):
            if v is old:
                d[k] = new
                n += 1
    return n


def wrap_classmethod(cls, name, post, counter):
    """post(result, cls, *args, **kwargs) -> None or a violation dict."""
    orig = getattr(cls, name)          # bound to cls
    func = orig.__func__

    @functools.wraps(func)
    def wrapper(klass, *args, **kwargs):
        result = func(klass, *args, **kwargs)
        counter[0] += 1
        post(result, *args, **kwargs)
        return result
    setattr(cls, name, classmethod(wrapper))
    return func


def wrap_function(module, name, post, counter):
    orig = getattr(module, name)

    @functools.wraps(orig)
    def wrapper(*args, **kwargs):
        result = orig(*args, **kwargs)
        counter[0] += 1
        post(result, *args, **kwargs)
        return result
    setattr(module, name, wrapper)
    rebind_aliases(orig, wrapper)
    return orig
