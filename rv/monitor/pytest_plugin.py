"""pytest plugin: runs the repository's own test-suite with the contract catalogue installed
(-p rv.monitor.pytest_plugin, PYTHONPATH=/verif).  Writes the report to $RV_CONTRACT_REPORT."""
import json
import os

_report = {}


def pytest_configure(config):
    from rv.core import env
    env.setup_rich()
    from rv.monitor import contracts
    contracts.install(_report)


def pytest_sessionfinish(session, exitstatus):
    path = os.environ.get("RV_CONTRACT_REPORT")
    if path:
        with open(path, "w") as f:
            json.dump(_report, f)
