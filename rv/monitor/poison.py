"""Result poisoning: a monitor for results that share mutable state with a cache or with their source.

A function whose result is a fresh value can be called, its result wrecked by the caller (lists cleared, reversed,
extended with junk), and called again with the same arguments: the second answer must equal the first.  A memo that
hands the same list object to every caller fails this although every *value* comparison of first calls passes."""

JUNK = "\x00poison\x00"


def poison(obj, depth=0):
    """Destructively edit every mutable container reachable from obj (lists, dicts, sets, bytearrays)."""
    if depth > 6:
        return
    if isinstance(obj, list):
        for x in list(obj):
            poison(x, depth + 1)
        obj.reverse()
        obj.append(JUNK)
        del obj[:1]
        obj.clear()
        obj.append(JUNK)
    elif isinstance(obj, dict):
        for x in list(obj.values()):
            poison(x, depth + 1)
        obj.clear()
        obj[JUNK] = JUNK
    elif isinstance(obj, set):
        obj.clear()
        obj.add(JUNK)
    elif isinstance(obj, bytearray):
        obj[:] = b"poison"
    elif isinstance(obj, tuple):
        for x in obj:
            poison(x, depth + 1)


def call_poison_call(ctx, name, call, snapshot, witness):
    """call() -> snapshot -> poison the result -> call() again -> snapshots must agree.  Returns the first snapshot."""
    first = call()
    s1 = snapshot(first)
    poison(first)
    second = call()
    s2 = snapshot(second)
    ctx.count("mon.result_poisoning")
    if s1 != s2:
        ctx.violation("%s-answer-changed-after-caller-edited-an-earlier-result" % name,
                      dict(witness, first=repr(s1)[:300], second=repr(s2)[:300]))
    return s1


def poison_text(t):
    """Wreck a rich Text through its public mutators (and its span list, which is a public attribute)."""
    try:
        t.stylize("reverse")
        t.append(JUNK, "bold")
        t.spans.reverse()
        del t.spans[:1]
        t.plain = "poison"
        t.truncate(3)
    except Exception:
        pass
