"""The contract catalogue: post-conditions installed on real rich functions so that they are evaluated on
EVERY call a workload makes (nested calls from tables, panels, wrapping ... included), not only on direct calls.

install(report) wraps the functions (and every early-bound alias found by identity scan of rich.* modules) and
records evaluations / violations in `report` = {"evaluations": {name: n}, "violations": [ {...} ]}.
"""
import functools
import sys

from rv.model import cellref


def _rebind(old, new):
    for name, mod in list(sys.modules.items()):
        if not name.startswith("rich") or mod is None:
            continue
        d = getattr(mod, "__dict__", {})
        for k, v in list(d.items()):
            if v is old:
                d[k] = new


def install(report):
    report.setdefault("evaluations", {})
    report.setdefault("violations", [])
    ev = report["evaluations"]

    def bad(name, **info):
        if len(report["violations"]) < 50:
            report["violations"].append(dict(contract=name, **{k: repr(v)[:300] for k, v in info.items()}))

    import rich.cells as cells
    import rich._ratio as ratio
    from rich.segment import Segment
    from rich.measure import Measurement
    from rich.color import Color

    # ---- cells
    orig_cell_len = cells.cell_len

    @functools.wraps(orig_cell_len)
    def cell_len(text, *a, **kw):
        r = orig_cell_len(text, *a, **kw)
        ev["cell_len"] = ev.get("cell_len", 0) + 1
        if r != cellref.width(text):
            bad("cell_len == sum of reference widths", text=text, got=r, want=cellref.width(text))
        return r
    cells.cell_len = cell_len
    _rebind(orig_cell_len, cell_len)

    orig_scs = cells.set_cell_size

    @functools.wraps(orig_scs)
    def set_cell_size(text, total):
        r = orig_scs(text, total)
        ev["set_cell_size"] = ev.get("set_cell_size", 0) + 1
        if total >= 0 and (cellref.width(r) != total or not (text.startswith(r.rstrip(" ")) or
                                                              text.rstrip(" ").startswith(r.rstrip(" ")))):
            bad("set_cell_size: exactly `total` cells, prefix + spaces", text=text, total=total, got=r)
        return r
    cells.set_cell_size = set_cell_size
    _rebind(orig_scs, set_cell_size)

    orig_chop = cells.chop_cells

    @functools.wraps(orig_chop)
    def chop_cells(text, max_size, position=0):
        r = orig_chop(text, max_size, position=position)
        ev["chop_cells"] = ev.get("chop_cells", 0) + 1
        if "".join(r) != text:
            bad("chop_cells: pieces concatenate to the input", text=text, max_size=max_size, got=r)
        if max_size >= 2:
            for i, piece in enumerate(r):
                limit = max_size - position if i == 0 else max_size
                if cellref.width(piece) > max(limit, 0) and piece:
                    bad("chop_cells: each piece fits", text=text, max_size=max_size, position=position, got=r)
                    break
        return r
    cells.chop_cells = chop_cells
    _rebind(orig_chop, chop_cells)

    # ---- ratio
    orig_rr = ratio.ratio_reduce

    @functools.wraps(orig_rr)
    def ratio_reduce(total, ratios, maximums, values):
        r = orig_rr(total, ratios, maximums, values)
        ev["ratio_reduce"] = ev.get("ratio_reduce", 0) + 1
        red = [v - x for v, x in zip(values, r)]
        if any(d < 0 or d > m for d, m in zip(red, maximums)) or (total >= 0 and sum(red) > total):
            bad("ratio_reduce: 0 <= reduction_i <= maximum_i, sum <= total", total=total, ratios=ratios,
                maximums=maximums, values=values, got=r)
        return r
    ratio.ratio_reduce = ratio_reduce
    _rebind(orig_rr, ratio_reduce)

    orig_rd = ratio.ratio_distribute

    @functools.wraps(orig_rd)
    def ratio_distribute(total, ratios, minimums=None):
        r = orig_rd(total, ratios, minimums)
        ev["ratio_distribute"] = ev.get("ratio_distribute", 0) + 1
        if minimums is None and total >= 0 and sum(r) != total:
            bad("ratio_distribute: parts sum to total when no minimum binds", total=total, ratios=ratios, got=r)
        if minimums is not None and any(x < m for x, m in zip(r, minimums) if m):
            bad("ratio_distribute: parts >= minimum", total=total, ratios=ratios, minimums=minimums, got=r)
        return r
    ratio.ratio_distribute = ratio_distribute
    _rebind(orig_rd, ratio_distribute)

    # ---- Segment.adjust_line_length
    orig_adj = Segment.adjust_line_length.__func__

    def adjust_line_length(cls, line, length, style=None, pad=True):
        r = orig_adj(cls, line, length, style=style, pad=pad)
        ev["adjust_line_length"] = ev.get("adjust_line_length", 0) + 1
        if length >= 0:
            src = sum(cellref.width(s.text) for s in line if not s.is_control)
            got = sum(cellref.width(s.text) for s in r if not s.is_control)
            want = length if (pad or src >= length) else src
            if got != want:
                bad("adjust_line_length: exact length when padding / cropping", line=line, length=length, pad=pad,
                    got_cells=got, want_cells=want)
        return r
    Segment.adjust_line_length = classmethod(adjust_line_length)

    # ---- Measurement.get
    orig_get = Measurement.get.__func__

    def get(cls, console, renderable, max_width=None):
        r = orig_get(cls, console, renderable, max_width)
        ev["Measurement.get"] = ev.get("Measurement.get", 0) + 1
        mw = console.width if max_width is None else max_width
        mn, mx = r
        if not ((mn, mx) == (0, 0) if mw < 1 else (0 <= mn <= mx <= mw)):
            bad("Measurement.get: 0 <= min <= max <= available", renderable=type(renderable).__name__, max_width=max_width,
                got=(mn, mx))
        return r
    Measurement.get = classmethod(get)

    # ---- Color.downgrade (through its lru_cache wrapper)
    orig_dg = Color.downgrade

    def downgrade(self, system):
        r = orig_dg(self, system)
        ev["Color.downgrade"] = ev.get("Color.downgrade", 0) + 1
        from rich.color import ColorSystem, ColorType
        if r.type != ColorType.DEFAULT:
            if system in (ColorSystem.STANDARD, ColorSystem.WINDOWS) and self.type not in (ColorType.DEFAULT,):
                if r.number is None or not (0 <= r.number < 16) and r.type != ColorType.TRUECOLOR:
                    if r.type in (ColorType.STANDARD, ColorType.WINDOWS):
                        bad("Color.downgrade: 16-colour result in range", color=self, system=system, got=r)
            if r.type == ColorType.EIGHT_BIT and not (0 <= r.number < 256):
                bad("Color.downgrade: 256-colour result in range", color=self, system=system, got=r)
        if orig_dg(r, system) != r:
            bad("Color.downgrade: idempotent", color=self, system=system, got=r)
        return r
    Color.downgrade = downgrade
    return report
