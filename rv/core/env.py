"""Locate the tree under test and import `rich` from it."""
import os
import subprocess
import sys
import hashlib

VERIF = os.path.dirname(os.path.dirname(os.path.dirname(os.path.abspath(__file__))))
REPO = os.environ.get("RV_REPO") or "/repo"


def setup_rich():
    """Make `import rich` resolve to REPO's working tree; return the module."""
    repo = os.path.abspath(REPO)
    if repo not in sys.path:
        sys.path.insert(0, repo)
    os.environ.setdefault("RICH_VERIF", "1")
    import rich
    got = os.path.dirname(os.path.dirname(os.path.abspath(rich.__file__)))
    if os.path.realpath(got) != os.path.realpath(repo):
        raise SystemExit("rv: rich imported from %s, expected %s" % (got, repo))
    return rich


def tree_identity():
    try:
        head = subprocess.run(["git", "-C", REPO, "rev-parse", "HEAD"], capture_output=True,
                              text=True, timeout=20).stdout.strip()
        diff = subprocess.run(["git", "-C", REPO, "diff", "HEAD", "--", "rich"],
                              capture_output=True, timeout=20).stdout
        return {"repo": REPO, "head": head,
                "diff_sha": hashlib.sha1(diff).hexdigest() if diff else None}
    except Exception as e:  # pragma: no cover
        return {"repo": REPO, "error": repr(e)}
