"""Shard orchestration, verdict, evidence and known-finding handling."""
import importlib
import json
import os
import shutil
import subprocess
import sys
import tempfile
import time
import traceback

from .ctx import Ctx, jsonable, stable_hash
from . import env

NSHARDS = int(os.environ.get("RV_SHARDS", "16"))
DEFAULT_BUDGET = {"quick": 40.0, "thorough": 600.0}


class WL:
    """One workload of a check.

    kind="cases": fn(ctx, rng, case_no) evaluates case `case_no` of `n`; cases are dealt
    round-robin to shards and are reproducible from (VERIF_SEED, check, name, case_no).
    kind="custom": fn(ctx) does its own sharding using ctx.shard / ctx.nshards.
    """

    def __init__(self, name, fn, n=0, kind="cases"):
        self.name, self.fn, self.n, self.kind = name, fn, n, kind


def load_check(check_id):
    return importlib.import_module("rv.checks." + check_id.lower())


def exc_mechanism(exc):
    """Mechanism key for an uncaught exception: type + innermost frame inside rich/."""
    where = "?"
    for fs in reversed(traceback.extract_tb(exc.__traceback__)):
        fn = fs.filename.replace("\\", "/")
        if "/rich/" in fn and "/verif/" not in fn:
            where = "%s:%s" % (os.path.basename(fn), fs.name)
            break
    else:
        tb = traceback.extract_tb(exc.__traceback__)
        if tb:
            where = "harness:%s:%s" % (os.path.basename(tb[-1].filename), tb[-1].name)
    return "exception:%s@%s" % (type(exc).__name__, where)


def run_case(ctx, wl, case_no):
    ctx.current = (wl.name, case_no)
    rng = ctx.rng(wl.name, case_no)
    try:
        wl.fn(ctx, rng, case_no)
    except (KeyboardInterrupt, SystemExit):
        raise
    except BaseException as exc:  # an escape from the code under test, or a harness bug
        ctx.violation(exc_mechanism(exc), {
            "exception": repr(exc),
            "traceback": traceback.format_exc(limit=-12)})
        ctx.evaluations += 1


def run_shard(check_id, tier, seed, shard, nshards, budget, out):
    env.setup_rich()
    mod = load_check(check_id)
    ctx = Ctx(check_id, tier, seed, shard, nshards, budget)
    wls = mod.workloads(tier)
    only = os.environ.get("RV_ONLY")
    if only:
        wls = [w for w in wls if w.name in only.split(",")]
    # give every workload a share of the time budget proportional to declaration order
    n_w = max(1, len(wls))
    for i, wl in enumerate(wls):
        share_end = budget * (i + 1) / n_w
        if wl.kind == "custom":
            ctx.current = (wl.name, None)
            ctx.wl_deadline = ctx.t0 + share_end
            try:
                wl.fn(ctx)
            except (KeyboardInterrupt, SystemExit):
                raise
            except BaseException as exc:
                ctx.violation(exc_mechanism(exc), {"exception": repr(exc),
                                                   "traceback": traceback.format_exc(limit=-12)})
            continue
        done = 0
        for case_no in range(shard, wl.n, nshards):
            if ctx.elapsed() > share_end:
                ctx.count("budget_cut:" + wl.name)
                break
            run_case(ctx, wl, case_no)
            done += 1
        ctx.count("cases:" + wl.name, done)
    ctx.dump(out)


def replay(check_id, path):
    env.setup_rich()
    mod = load_check(check_id)
    w = json.load(open(path))
    ctx = Ctx(check_id, w.get("tier", "quick"), int(w.get("seed", 0)))
    wls = {x.name: x for x in mod.workloads(ctx.tier)}
    wl = wls.get(w.get("workload"))
    if wl is None or wl.kind != "cases" or w.get("case") is None:
        print("replay: witness is not a reproducible case; stored observation follows")
        print(json.dumps(w, indent=1, ensure_ascii=False)[:6000])
        return 0
    run_case(ctx, wl, int(w["case"]))
    if ctx.violations:
        for mech, v in ctx.violations.items():
            print("REPLAY reproduces mechanism", mech)
            print(json.dumps(v["witnesses"][0], indent=1, ensure_ascii=False)[:8000])
        return 1
    print("replay: case ran without a violation on the current tree")
    return 0


def load_known(check_id):
    path = os.path.join(env.VERIF, "known_findings.json")
    try:
        data = json.load(open(path))
    except FileNotFoundError:
        return []
    return [f for f in data.get("findings", [])
            if f.get("property") == check_id and f.get("status") == "known"]


def main(argv=None):
    import argparse
    ap = argparse.ArgumentParser()
    ap.add_argument("check")
    ap.add_argument("--tier", default=os.environ.get("VERIF_TIER", "quick"),
                    choices=["quick", "thorough"])
    ap.add_argument("--shard", default=None)
    ap.add_argument("--out", default=None)
    ap.add_argument("--replay", default=None)
    ap.add_argument("--budget", type=float, default=None)
    ap.add_argument("--no-evidence", action="store_true")
    args = ap.parse_args(argv)
    check_id = args.check.upper()
    seed = int(os.environ.get("VERIF_SEED", "0") or 0)
    budget = args.budget or float(os.environ.get("RV_BUDGET", 0) or DEFAULT_BUDGET[args.tier])

    if args.replay:
        return replay(check_id, args.replay)
    if args.shard:
        i, n = args.shard.split("/")
        run_shard(check_id, args.tier, seed, int(i), int(n), budget, args.out)
        return 0
    return orchestrate(check_id, args.tier, seed, budget, not args.no_evidence)


def orchestrate(check_id, tier, seed, budget, write_evidence=True):
    t0 = time.monotonic()
    mod = load_check(check_id)
    nshards = getattr(mod, "NSHARDS", NSHARDS)
    tmp = tempfile.mkdtemp(prefix="rv-%s-" % check_id)
    procs = []
    envv = dict(os.environ)
    envv.update(PYTHONHASHSEED="0", PYTHONDONTWRITEBYTECODE="1", RICH_VERIF="1",
                PYTHONPATH=env.VERIF + os.pathsep + envv.get("PYTHONPATH", ""))
    envv.pop("NO_COLOR", None)
    envv.pop("COLUMNS", None)
    envv.pop("LINES", None)
    hard = budget * 2.5 + 120
    try:
        for i in range(nshards):
            out = os.path.join(tmp, "shard%d.json" % i)
            log = open(os.path.join(tmp, "shard%d.log" % i), "w")
            p = subprocess.Popen(
                [sys.executable, "-B", os.path.join(env.VERIF, "rv", "run.py"), check_id,
                 "--tier", tier, "--shard", "%d/%d" % (i, nshards), "--out", out,
                 "--budget", str(budget)],
                stdout=log, stderr=subprocess.STDOUT, env=envv, cwd=env.VERIF)
            procs.append((p, out, log))
        results, problems = [], []
        for i, (p, out, log) in enumerate(procs):
            remaining = max(1.0, hard - (time.monotonic() - t0))
            try:
                rc = p.wait(timeout=remaining)
            except subprocess.TimeoutExpired:
                p.kill()
                p.wait()
                problems.append("shard %d: watchdog fired after %.0fs" % (i, hard))
                continue
            finally:
                log.close()
            if rc != 0 or not os.path.exists(out):
                tail = open(log.name, errors="replace").read()[-1500:]
                problems.append("shard %d: exit %s without result: %s" % (i, rc, tail))
                continue
            results.append(json.load(open(out)))
    finally:
        for p, _, _ in procs:
            if p.poll() is None:
                p.kill()
        shutil.rmtree(tmp, ignore_errors=True)
    return conclude(mod, check_id, tier, seed, results, problems,
                    time.monotonic() - t0, write_evidence)


def merge(results):
    ev = 0
    nontrivial = set()
    counters, hists, samples, violations, inconc, exhaustive = {}, {}, {}, {}, [], {}
    distinct_sets = {}
    for r in results:
        for k, v in r.get("distinct_sets", {}).items():
            distinct_sets.setdefault(k, set()).update(v)
        ev += r["evaluations"]
        nontrivial.update(r["nontrivial"])
        for k, v in r["counters"].items():
            counters[k] = counters.get(k, 0) + v
        for h, d in r["hists"].items():
            hh = hists.setdefault(h, {})
            for k, v in d.items():
                hh[k] = hh.get(k, 0) + v
        for wl, s in r["samples"].items():
            lst = samples.setdefault(wl, [])
            for x in s:
                if len(lst) < 2:
                    lst.append(x)
        for mech, v in r["violations"].items():
            vv = violations.setdefault(mech, {"count": 0, "witnesses": []})
            vv["count"] += v["count"]
            vv["witnesses"].extend(v["witnesses"])
        inconc.extend(r["inconclusive"])
        for k, v in r.get("exhaustive", {}).items():
            exhaustive[k] = exhaustive.get(k, 0) + v
    hists["_distinct_observed"] = {k: len(v) for k, v in distinct_sets.items()}
    return ev, nontrivial, counters, hists, samples, violations, inconc, exhaustive


def conclude(mod, check_id, tier, seed, results, problems, wall, write_evidence):
    ev, nontrivial, counters, hists, samples, violations, inconc, exhaustive = merge(results)
    known = load_known(check_id)
    import fnmatch
    known_by_key = {}
    new_violations, known_hits = {}, {}
    for mech, v in violations.items():
        hit = None
        for f in known:
            if fnmatch.fnmatchcase(mech, f["match"]):
                hit = f
                break
        if hit is not None:
            known_hits[mech] = v
            known_by_key[mech] = hit
        else:
            new_violations[mech] = v

    # inconclusive conditions: watchdogs, dead shards, deciding monitors never reached
    inconc = list(inconc) + problems
    for name in getattr(mod, "REQUIRED", []):
        if counters.get(name, 0) <= 0:
            inconc.append("deciding monitor %r was evaluated 0 times" % name)
    floor = getattr(mod, "MIN_NONTRIVIAL", {}).get(tier, 2)
    if len(nontrivial) < max(2, floor):
        inconc.append("only %d distinct non-trivial cases (floor %d)" % (len(nontrivial), floor))

    sample_list = []
    for wl, s in sorted(samples.items()):
        for x in s:
            sample_list.append({"workload": wl, "case": x})
    if not sample_list:
        sample_list = [{"note": "no non-trivial sample recorded"}]

    printed_keys = set()
    for mech, v in sorted(known_hits.items()):
        f = known_by_key[mech]
        if f["key"] in printed_keys:
            continue
        printed_keys.add(f["key"])
        total = sum(x["count"] for m, x in known_hits.items() if known_by_key[m]["key"] == f["key"])
        print("KNOWN-FINDING: property=%s %s [%s; seen %d times in this run]" % (
            check_id, f["what_fails"], f["key"], total))

    status = "held"
    replay_paths = []
    if new_violations:
        status = "violated"
        os.makedirs(os.path.join(env.VERIF, "replays"), exist_ok=True)
        for mech, v in sorted(new_violations.items()):
            w = v["witnesses"][0]
            name = "%s-%016x.json" % (check_id, stable_hash(mech))
            path = os.path.join(env.VERIF, "replays", name)
            with open(path, "w") as f:
                json.dump(w, f, indent=1, ensure_ascii=False)
            replay_paths.append(path)
            print("VIOLATION property=%s replay=%s" % (check_id, path))
            print("  mechanism: %s  (observed %d times)" % (mech, v["count"]))
            short = json.dumps(w.get("witness"), ensure_ascii=False)
            print("  witness: %s" % short[:600])
    elif inconc:
        status = "inconclusive"
        for why in inconc[:10]:
            print("INCONCLUSIVE property=%s %s" % (check_id, why))

    if write_evidence:
        evidence = {
            "property_id": check_id, "tier": tier, "seed": seed,
            "level": getattr(mod, "LEVEL", "exploration"),
            "coverage": {
                "evaluations": ev,
                "distinct_nontrivial": len(nontrivial),
                "rule": mod.RULE,
                "samples": sample_list[:8],
                "monitor_evaluations": {k: v for k, v in sorted(counters.items())},
                "observed": {k: v for k, v in hists.items() if k != "_distinct_observed"},
                "distinct_observed": hists.get("_distinct_observed", {}),
                "exhaustive_slices": exhaustive,
                "exhaustive": bool(getattr(mod, "EXHAUSTIVE", {}).get(tier, False)),
                "verdict": status,
                "known_findings_seen": {m: v["count"] for m, v in known_hits.items()},
                "new_violation_mechanisms": {m: v["count"] for m, v in new_violations.items()},
                "inconclusive_reasons": inconc[:10],
                "tree": env.tree_identity(),
                "shards": len(results),
            },
            "assumptions": list(getattr(mod, "ASSUMPTIONS", [])),
            "wall_s": round(wall, 2),
            "violations": sum(v["count"] for v in new_violations.values()),
        }
        os.makedirs(os.path.join(env.VERIF, "evidence"), exist_ok=True)
        with open(os.path.join(env.VERIF, "evidence", check_id + ".json"), "w") as f:
            json.dump(jsonable(evidence), f, indent=1, ensure_ascii=False, sort_keys=True)

    print("%s tier=%s seed=%d verdict=%s evaluations=%d distinct_nontrivial=%d wall=%.1fs" % (
        check_id, tier, seed, status, ev, len(nontrivial), wall))
    if status == "violated":
        return 1
    if status == "inconclusive":
        return 2
    return 0
