"""Per-shard monitoring context: counters, histograms, case accounting, violations.

Everything a check observes goes through a Ctx so that the evidence file reports what the
monitors actually saw (events, distinct cases, mechanisms) rather than that a workload ran.
"""
import hashlib
import json
import random
import time


def stable_hash(obj) -> int:
    """64-bit hash of a JSON-able / repr-able signature, independent of PYTHONHASHSEED."""
    if not isinstance(obj, (str, bytes)):
        obj = repr(obj)
    if isinstance(obj, str):
        obj = obj.encode("utf-8", "surrogatepass")
    return int.from_bytes(hashlib.blake2b(obj, digest_size=8).digest(), "big")


def jsonable(obj, depth=0):
    """Best-effort conversion of a witness to JSON-able data."""
    if depth > 8:
        return repr(obj)
    if obj is None or isinstance(obj, (bool, int, float)):
        if isinstance(obj, float) and (obj != obj or obj in (float("inf"), float("-inf"))):
            return repr(obj)
        return obj
    if isinstance(obj, str):
        try:
            obj.encode("utf-8")
            return obj
        except UnicodeEncodeError:
            return obj.encode("utf-8", "backslashreplace").decode("ascii", "replace")
    if isinstance(obj, bytes):
        return {"__bytes__": obj.hex()}
    if isinstance(obj, dict):
        return {str(k): jsonable(v, depth + 1) for k, v in obj.items()}
    if isinstance(obj, (list, tuple, set, frozenset)):
        seq = list(obj)
        if isinstance(obj, (set, frozenset)):
            seq = sorted(seq, key=repr)
        return [jsonable(v, depth + 1) for v in seq]
    return repr(obj)


class Ctx:
    MAX_WITNESS_PER_MECH = 5
    MAX_SAMPLES_PER_WL = 2

    def __init__(self, check_id, tier, seed, shard=0, nshards=1, budget_s=60.0):
        self.check_id = check_id
        self.tier = tier
        self.seed = seed
        self.shard = shard
        self.nshards = nshards
        self.budget_s = budget_s
        self.t0 = time.monotonic()
        self.evaluations = 0
        self.nontrivial = set()
        self.counters = {}
        self.hists = {}
        self.samples = {}
        self.violations = {}  # mech -> {"count": n, "witnesses": [...]}
        self.inconclusive = []
        self.current = None  # (workload, case_no)
        self.exhaustive = {}
        self.distinct_sets = {}     # name -> set of 64-bit hashes of observed signatures

    # -- randomness -------------------------------------------------------------------
    def rng(self, *parts) -> random.Random:
        key = "/".join(str(p) for p in (self.seed, self.check_id) + parts)
        return random.Random(key)

    # -- time -------------------------------------------------------------------------
    def elapsed(self):
        return time.monotonic() - self.t0

    def time_left(self):
        return self.budget_s - self.elapsed()

    # -- observation ------------------------------------------------------------------
    def count(self, name, n=1):
        self.counters[name] = self.counters.get(name, 0) + n

    def hist(self, name, key, n=1):
        h = self.hists.setdefault(name, {})
        key = str(key)
        h[key] = h.get(key, 0) + n

    def distinct(self, name, sig):
        """Record an observed signature (an interleaving, a state, a lock order ...); the evidence reports how
        many DISTINCT ones were seen across all shards."""
        self.distinct_sets.setdefault(name, set()).add(stable_hash(sig))

    def case_done(self, sig, nontrivial=True, sample=None):
        """Account one evaluated case.  `sig` canonically identifies the case (for the
        distinct count); `nontrivial` is the per-check rule evaluated on what was observed."""
        self.evaluations += 1
        if nontrivial:
            self.nontrivial.add(stable_hash(sig))
            wl = self.current[0] if self.current else "_"
            lst = self.samples.setdefault(wl, [])
            if sample is not None and len(lst) < self.MAX_SAMPLES_PER_WL:
                lst.append(jsonable(sample))

    def violation(self, mech, witness):
        """Record a refuting observation.  `mech` is the mechanism key computed by the
        check's classifier from features of the witness (never from a hash or a random
        value); known_findings.json is matched against it."""
        v = self.violations.setdefault(mech, {"count": 0, "witnesses": []})
        v["count"] += 1
        if len(v["witnesses"]) < self.MAX_WITNESS_PER_MECH:
            w = {"mechanism": mech, "workload": None, "case": None, "seed": self.seed,
                 "tier": self.tier}
            if self.current:
                w["workload"], w["case"] = self.current
            w["witness"] = jsonable(witness)
            v["witnesses"].append(w)

    def mark_inconclusive(self, why):
        if len(self.inconclusive) < 20:
            self.inconclusive.append(str(why))

    def mark_exhaustive(self, name, n):
        self.exhaustive[name] = n

    # -- serialisation ----------------------------------------------------------------
    def dump(self, path):
        data = {
            "check": self.check_id, "shard": self.shard, "nshards": self.nshards,
            "evaluations": self.evaluations,
            "nontrivial": sorted(self.nontrivial),
            "counters": self.counters, "hists": self.hists, "samples": self.samples,
            "violations": self.violations, "inconclusive": self.inconclusive,
            "exhaustive": self.exhaustive, "wall_s": self.elapsed(),
            "distinct_sets": {k: sorted(v) for k, v in self.distinct_sets.items()},
        }
        with open(path, "w") as f:
            json.dump(data, f)
