"""Alphabets and string generators.

Character classes are mixed by weights.  Two modes: free (any repetition) and *unique*
(every non-blank character of a case drawn without replacement) which makes output
characters self-identifying.
"""
import string

from rv.model import cellref

ASCII_LETTERS = string.ascii_letters + string.digits
ASCII_PUNCT = "!\"#$%&'()*+,-./:;<=>?@[\\]^_`{|}~"
# double-width
WIDE = ([chr(c) for c in range(0x4E00, 0x4E00 + 400)]
        + [chr(c) for c in range(0xAC00, 0xAC00 + 200)]
        + [chr(c) for c in range(0xFF21, 0xFF3B)]          # fullwidth A-Z
        + [chr(c) for c in range(0x3041, 0x3097)]          # hiragana
        + [chr(c) for c in range(0x1F600, 0x1F650)])       # emoji (astral)
# zero-width / combining
ZERO = ([chr(c) for c in range(0x0300, 0x0340)]
        + ["​", "‍", "️", "︎", "҃", "ְ"])
# single-width non-ASCII
NARROW_UNI = ([chr(c) for c in range(0x00C0, 0x0180)]
              + [chr(c) for c in range(0x0391, 0x03CA) if c != 0x03A2]
              + [chr(c) for c in range(0x0410, 0x0450)])
# C0 / DEL / C1 control characters that Text keeps (zero cells in the width table); not ESC or CSI/OSC/DCS
# introducers (they would start sequences in the terminal models), not the line separators str.splitlines knows
KEPT_CONTROLS = ["\x01", "\x02", "\x0e", "\x1a", "\x1f", "\x7f", "\x80", "\x9f"]
STRIPPED_CONTROLS = "\b\v\f\r"          # what Text strips (rich.control.strip_control_codes)
# white space beyond ASCII (str.isspace() is true, str.split() and the regex class \s break on them): U+3000 is the one
# that is TWO cells wide
UNICODE_SPACES = ["\u3000", "\u3000", "\u2003", "\u00a0", "\u1680", "\u205f"]
SEPARATOR_ODDITIES = [" ", " ", "\x85", "\x1c", "\x1d", "\x1e"]
# glyphs that frames and guides draw: excluded from unique alphabets
FRAME_GLYPHS = set("+-|=─━═│┃║┄┅┆┇┈┉┊┋╌╍╎╏┌┍┎┏┐┑┒┓└┕┖┗┘┙┚┛├┝┞┟┠┡┢┣┤┥┦┧┨┩┪┫┬┭┮┯┰┱┲┳"
                   "┴┵┶┷┸┹┺┻┼┽┾┿╀╁╂╃╄╅╆╇╈╉╊╋╒╓╔╕╖╗╘╙╚╛╜╝╞╟╠╡╢╣╤╥╦╧╨╩╪╫╬╭╮╯╰╴╵╶╷╸╹╺╻╼╽╾╿…❱`:")


def _table_classes():
    """Two alphabets derived from the DATA of rich._cell_widths (never from its lookup code):
    edge     - the first and last code point of every range of the width table and their outside neighbours
               (where a binary search, a hand-written range or a fast path is most likely to be off by one);
    sporadic - members of short (<= 4 code points) double- or zero-width ranges below U+3000: odd-width characters
               that live inside blocks of otherwise single-width symbols (U+231A, U+25FD, U+2614 ...)."""
    import unicodedata
    from rich._cell_widths import CELL_WIDTHS

    def usable(cp):
        if not (0x20 <= cp <= 0x10FFFF) or 0xD800 <= cp <= 0xDFFF:
            return False
        ch = chr(cp)
        return (unicodedata.category(ch) not in ("Cc", "Cs", "Zl", "Zp", "Zs", "Cn", "Co") and not ch.isspace()
                and ch not in FRAME_GLYPHS and ch not in "[]\\")
    edge, sporadic = [], []
    for start, end, w in CELL_WIDTHS:
        for cp in (start - 1, start, end, end + 1):
            if usable(cp):
                edge.append(chr(cp))
        if end - start < 4 and end < 0x3000:
            sporadic.extend(chr(cp) for cp in range(start, end + 1) if usable(cp))
    return sorted(set(edge)), sorted(set(sporadic))


def _check_classes():
    assert all(cellref.char_width(c) == 2 for c in WIDE), \
        [hex(ord(c)) for c in WIDE if cellref.char_width(c) != 2][:5]
    assert all(cellref.char_width(c) == 0 for c in ZERO), \
        [hex(ord(c)) for c in ZERO if cellref.char_width(c) != 0][:5]
    assert all(cellref.char_width(c) == 1 for c in NARROW_UNI), \
        [hex(ord(c)) for c in NARROW_UNI if cellref.char_width(c) != 1][:5]


_checked = False


def classes():
    global _checked
    if not _checked:
        _check_classes()
        _checked = True
    global _TABLE_CLASSES
    if _TABLE_CLASSES is None:
        _TABLE_CLASSES = _table_classes()
    return {"ascii": ASCII_LETTERS, "punct": ASCII_PUNCT, "wide": WIDE, "zero": ZERO,
            "narrow": NARROW_UNI, "edge": _TABLE_CLASSES[0], "sporadic": _TABLE_CLASSES[1], "control": KEPT_CONTROLS,
            "uspace": UNICODE_SPACES}


_TABLE_CLASSES = None


def sparse_odd_string(rng, min_len=65, max_len=300):
    """A long run of printable ASCII with one to three characters from the width table's edges / sporadic
    odd-width characters inserted: what a length threshold or a character-class fast path mishandles."""
    cl = classes()
    n = rng.randint(min_len, max_len)
    out = [rng.choice(ASCII_LETTERS + "    .,-") for _ in range(n)]
    for _ in range(rng.randint(1, 3)):
        r = rng.random()
        if r < 0.12:
            pool = cl["control"]
        else:
            pool = cl["edge"] if r < 0.35 else [c for c in cl["sporadic"] if (cellref.char_width(c) == 2) == (r < 0.75)]
        out[rng.randrange(n)] = rng.choice(pool)
    return "".join(out)


def blank_line(rng, min_len=65, max_len=130):
    """A long line of nothing but white space, some of it the two-cell IDEOGRAPHIC SPACE (a full-width spacer line):
    what a shortcut for "all blank" strings that counts characters instead of cells gets wrong."""
    n = rng.randint(min_len, max_len)
    out = [rng.choice([" ", " ", " ", "\u3000", "\u2003"]) for _ in range(n)]
    out[rng.randrange(n)] = "\u3000"
    return "".join(out)


DEFAULT_WEIGHTS = {"ascii": 8, "punct": 1, "wide": 3, "zero": 1, "narrow": 1}


def pick_weights(rng, allow_zero=True, allow_wide=True, allow_punct=True):
    """A random mixture, so that some cases are pure ASCII, some wide-heavy, etc."""
    mode = rng.random()
    w = dict(DEFAULT_WEIGHTS)
    if mode < 0.25:
        w = {"ascii": 1}
    elif mode < 0.40:
        w = {"ascii": 2, "wide": 5}
    elif mode < 0.5:
        w = {"ascii": 4, "zero": 3, "wide": 2}
    elif mode < 0.58:
        w = {"ascii": 6, "edge": 2, "sporadic": 2}
    elif mode < 0.62:
        w = {"ascii": 12, "control": 1}
    elif mode < 0.67:
        w = {"ascii": 8, "wide": 2, "uspace": 2}
    if not allow_zero:
        drop_zero(w)
    if not allow_wide:
        w.pop("wide", None)
        w.pop("edge", None)
        w.pop("sporadic", None)
        w.pop("uspace", None)
        if not w:
            w["ascii"] = 1
    if not allow_punct:
        w.pop("punct", None)
    return w


def drop_zero(w):
    """Remove every class that contains zero-width characters from a weight mixture."""
    for name in ("zero", "edge", "sporadic", "control"):
        w.pop(name, None)
    if not w:
        w["ascii"] = 1
    return w


def rand_char(rng, weights=None):
    weights = weights or DEFAULT_WEIGHTS
    cl = classes()
    names = list(weights)
    name = rng.choices(names, [weights[n] for n in names])[0]
    return rng.choice(cl[name])


def free_string(rng, max_len=20, weights=None, space=0.15, newline=0.0, tab=0.0, min_len=0):
    n = rng.randint(min_len, max_len)
    out = []
    for _ in range(n):
        r = rng.random()
        if r < space:
            out.append(" " * (1 if rng.random() < 0.8 else rng.randint(2, 4)))
        elif r < space + newline:
            out.append("\n")
        elif r < space + newline + tab:
            out.append("\t")
        else:
            out.append(rand_char(rng, weights))
    return "".join(out)


class UniquePool:
    """Draws non-blank characters without replacement within one case."""

    def __init__(self, rng, weights=None, exclude=()):
        self.rng = rng
        self.weights = weights or DEFAULT_WEIGHTS
        self.used = set(exclude) | FRAME_GLYPHS
        self.used.update(" \n\t")

    def char(self):
        for _ in range(200):
            c = rand_char(self.rng, self.weights)
            if c not in self.used and not c.isspace():
                self.used.add(c)
                return c
        # fall back: scan a big CJK block
        for cp in range(0x5000, 0x9000):
            c = chr(cp)
            if c not in self.used:
                self.used.add(c)
                return c
        raise RuntimeError("unique pool exhausted")

    def word(self, min_len=1, max_len=8):
        return "".join(self.char() for _ in range(self.rng.randint(min_len, max_len)))

    def string(self, max_len=40, space=0.2, newline=0.0, tab=0.0, min_len=0):
        n = self.rng.randint(min_len, max_len)
        out = []
        for _ in range(n):
            r = self.rng.random()
            if r < space:
                out.append(" " * (1 if self.rng.random() < 0.8 else self.rng.randint(2, 4)))
            elif r < space + newline:
                out.append("\n")
            elif r < space + newline + tab:
                out.append("\t")
            else:
                out.append(self.char())
        return "".join(out)


def has_wide(s):
    return any(cellref.char_width(c) == 2 for c in s)
