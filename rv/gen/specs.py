"""Renderable-tree specs (plain data) and builders of *fresh* Rich objects from them.

spec grammar (depth <= 4):
  text | rule | bar | pbar | panel(child) | padding(child) | align(child) | constrain(child) |
  styled(child) | group(children) | columns(items) | tree(nodes) | table(columns, rows of child)
"""
from rv.gen import strings as S
from rv.gen import styles as G
from rv.model import cellref

BOX_NAMES = ["ASCII", "ASCII2", "ASCII_DOUBLE_HEAD", "SQUARE", "SQUARE_DOUBLE_HEAD", "MINIMAL",
             "MINIMAL_HEAVY_HEAD", "MINIMAL_DOUBLE_HEAD", "SIMPLE", "SIMPLE_HEAD", "SIMPLE_HEAVY",
             "HORIZONTALS", "ROUNDED", "HEAVY", "HEAVY_EDGE", "HEAVY_HEAD", "DOUBLE", "DOUBLE_EDGE"]

LEAF_KINDS = ["text", "text", "text", "rule", "bar", "pbar"]
WRAP_KINDS = ["panel", "padding", "align", "constrain", "styled", "group", "columns", "tree", "table"]


def rand_pad(rng, small=True):
    hi = 2 if small else 4
    r = rng.random()
    if r < 0.3:
        return rng.randint(0, hi)
    if r < 0.6:
        return (rng.randint(0, 1), rng.randint(0, hi))
    return (rng.randint(0, 1), rng.randint(0, hi), rng.randint(0, 1), rng.randint(0, hi))


def unpack_pad(pad):
    if isinstance(pad, int):
        return (pad, pad, pad, pad)
    pad = tuple(pad)
    if len(pad) == 1:
        return pad * 4
    if len(pad) == 2:
        return (pad[0], pad[1], pad[0], pad[1])
    return pad


def rand_text_spec(rng, profile, max_len=None):
    w = profile.get("weights") or S.pick_weights(rng)
    max_len = max_len or rng.choice([0, 3, 8, 20, 50])
    s = S.free_string(rng, max_len, w, space=0.18, newline=0.05 if profile.get("newlines", True) else 0.0)
    if max_len >= 20 and not profile.get("weights") and profile.get("long_lines", True) and rng.random() < 0.06:
        # a long, almost-ASCII line with a few odd-width characters (see strings.sparse_odd_string)
        s = S.sparse_odd_string(rng, 65, 160)
        if rng.random() < 0.5:
            s = s.replace(" ", "_")     # one unbreakable word
    if profile.get("long_lines", True) and not profile.get("weights") and rng.random() < 0.012:
        # a full-width spacer line (all white space, some of it two cells wide), alone or between two words
        s = S.blank_line(rng) if rng.random() < 0.5 else "ab\n" + S.blank_line(rng) + "\ncd"
    if s and profile.get("odd_separators", True) and rng.random() < 0.03:
        # whitespace that occupies no cell and that str.splitlines (but not rich) treats as a line break
        pos = rng.randint(0, len(s))
        s = s[:pos] + rng.choice([" ", ""]) + rng.choice(S.SEPARATOR_ODDITIES) + s[pos:]
    overflows = ["fold", "crop", "ellipsis"] + (["ignore"] if profile.get("allow_ignore") else [])
    spec = {"k": "text", "s": s,
            "justify": rng.choice([None, None, "left", "center", "right", "full"]),
            "overflow": rng.choice([None, None] + overflows),
            "no_wrap": rng.choice([None, None, None, True, False]),
            "style": G.definition(G.rand_record(rng, p_attr=0.1)) if rng.random() < 0.3 else None}
    return spec


def rand_title_text(rng, p=0.2):
    """None (the title is a str, parsed as markup) or the options of a Text title (taken literally): a Text has a
    justify / overflow / style of its own, may contain tabs and line breaks."""
    if rng.random() >= p:
        return None
    return {"s": rng.choice(["T", "a title", "tab\there", "two\nlines", "ends\n", "漢字 title", "a very long title " * 3,
                             "[not markup]"]),
            "justify": rng.choice([None, None, "left", "center", "right", "full"]),
            "overflow": rng.choice([None, None, "fold", "crop", "ellipsis", "ignore"]),
            "style": rng.choice([None, "bold", "on red"]),
            # (tab_size=None is documented: "use the console's tab size")
            "tab_size": rng.choice([8, 8, None, 4, 1])}


def build_title(spec):
    tt = spec.get("title_text")
    if not tt:
        return spec["title"]
    from rich.text import Text
    return Text(tt["s"], justify=tt["justify"], overflow=tt["overflow"], style=tt["style"] or "",
                tab_size=tt.get("tab_size", 8))


def title_plain(spec):
    """The characters of the title as shown (line breaks become spaces; tabs are expanded by the panel)."""
    tt = spec.get("title_text")
    if tt:
        return tt["s"].replace("\n", " ")
    if not spec["title"]:
        return ""
    from rich.text import Text
    return Text.from_markup(spec["title"]).plain.replace("\n", " ")


def gen_spec(rng, depth=3, profile=None, inline_ok=True):
    """inline_ok: a spec that `ends inline` (a ProgressBar emits no newline) is allowed here."""
    profile = profile or {}
    spec = _gen_spec(rng, depth, profile, inline_ok)
    if profile.get("decor", True) and rng.random() < 0.15:
        # purely decorative options (styles of borders, fills, headers, guides; title justification): they colour
        # cells and must never move one
        d = _decor(spec["k"], rng)
        if d:
            spec["decor"] = d
    if profile.get("casts", True) and spec["k"] not in ("pbar", "richcast") and rng.random() < 0.04:
        # duck-typed renderables: an object that only has __rich__ (cast by the console wherever it meets one), or
        # only __rich_console__ (no measure method)
        spec = {"k": rng.choice(["richcast", "richcast", "nomeasure"]), "child": spec}
    if profile.get("vcenter") and spec["k"] != "pbar" and rng.random() < 0.04:
        # (only where the oracle looks at widths: VerticalCenter adds blank lines up to the console's height)
        spec = {"k": "vcenter", "child": spec}
    solid = spec["k"] == "panel" or (spec["k"] == "text" and spec["s"].strip())
    if profile.get("controls", True) and solid and rng.random() < 0.05:
        # a renderable that emits a control code (bell, cursor visibility, window title) before its content:
        # control segments occupy no cells, wherever they end up in a line (only around children that always
        # render at least one line: how many lines a control code alone makes is nobody's contract)
        spec = {"k": "ctrl", "child": spec, "code": rng.choice(["\x07", "\x1b[?25l", "\x1b]0;a window title\x07"])}
    return spec


DECOR_STYLES = ["bold", "on red", "italic blue", "underline", "reverse", "dim", "link https://example.org/d",
                "bold white on #102030", "not bold"]


def _decor(kind, rng):
    st = lambda: rng.choice(DECOR_STYLES)
    if kind == "rule":
        return {"style": st()}
    if kind == "bar":
        return {"color": rng.choice(["red", "#010203", "color(200)"]), "bgcolor": rng.choice(["default", "blue", "#aabbcc"])}
    if kind == "pbar":
        return {"style": st(), "complete_style": st(), "finished_style": st(), "pulse_style": st()}
    if kind == "panel":
        return {"border_style": st()}
    if kind in ("padding", "align"):
        return {"style": st()}
    if kind == "tree":
        return {"style": st(), "guide_style": st()}
    if kind == "table":
        return {"header_style": st(), "footer_style": st(), "border_style": st(), "title_style": st(),
                "caption_style": st(), "title_justify": rng.choice(["left", "center", "right"]),
                "caption_justify": rng.choice(["left", "center", "right"]), "highlight": rng.random() < 0.5}
    return None


def _gen_spec(rng, depth, profile, inline_ok):
    kinds = profile.get("kinds")
    if depth <= 0 or rng.random() < 0.3:
        k = rng.choice([x for x in LEAF_KINDS if (kinds is None or x in kinds)] or ["text"])
    else:
        k = rng.choice([x for x in WRAP_KINDS if (kinds is None or x in kinds)] or ["text"])
    if k == "pbar" and not inline_ok:
        k = "text"
    if k == "text":
        return rand_text_spec(rng, profile)
    if k == "rule":
        w = profile.get("weights") or S.pick_weights(rng)
        return {"k": "rule", "title": S.free_string(rng, rng.choice([0, 0, 4, 12, 30]), w, space=0.1),
                "characters": rng.choice(["─", "─", "-", "=*", "漢", "━", "ab漢"]),
                "align": rng.choice(["left", "center", "right"])}
    if k == "bar":
        size = rng.choice([1, 10, 100, 3.5])
        begin = rng.uniform(0, size)
        if rng.random() < 0.3:
            # the documented extremes: a bar that starts at 0 and / or is filled to its very end
            begin = rng.choice([0, 0, begin])
            return {"k": "bar", "size": size, "begin": begin, "end": size, "width": rng.choice([None, None, 1, 5, 20, 300])}
        return {"k": "bar", "size": size, "begin": begin, "end": rng.uniform(begin, size) if rng.random() < 0.8 else 0,
                "width": rng.choice([None, None, 1, 5, 20, 300])}
    if k == "pbar":
        total = rng.choice([100, 1, 0, 7.5, 10 ** 9])
        return {"k": "pbar", "total": total, "completed": rng.choice([0, total, total / 2 if total else 0, -1, total + 5]),
                "width": rng.choice([None, None, 1, 5, 20, 300]), "pulse": rng.random() < 0.2}
    if k == "panel":
        return {"k": "panel", "child": gen_spec(rng, depth - 1, profile, inline_ok=False),
                "box": rng.choice(BOX_NAMES),
                "title": rng.choice([None, None, "T", "a title", "漢字 title", "[b]x[/b] y", "a very long title " * 3]),
                "title_align": rng.choice(["left", "center", "right"]),
                "expand": rng.random() < 0.6,
                "width": rng.choice([None, None, None, 10, 30, 250]),
                "padding": rand_pad(rng), "safe_box": rng.choice([None, True, False]),
                "style": G.definition(G.rand_record(rng, p_attr=0.1)) if rng.random() < 0.2 else "none",
                "title_text": rand_title_text(rng)}
    if k == "padding":
        return {"k": "padding", "child": gen_spec(rng, depth - 1, profile, inline_ok=False),
                "pad": rand_pad(rng, small=False), "expand": rng.random() < 0.6}
    if k == "align":
        return {"k": "align", "child": gen_spec(rng, depth - 1, profile, inline_ok=False),
                "align": rng.choice(["left", "center", "right"]), "pad": rng.random() < 0.7,
                "width": rng.choice([None, None, 5, 20, 100])}
    if k == "constrain":
        return {"k": "constrain", "child": gen_spec(rng, depth - 1, profile, inline_ok),
                "width": rng.choice([None, 1, 4, 10, 40, 300])}
    if k == "styled":
        return {"k": "styled", "child": gen_spec(rng, depth - 1, profile, inline_ok),
                "style": G.definition(G.rand_record(rng, p_attr=0.1))}
    if k == "group":
        n = rng.randint(0, 4)
        children = [gen_spec(rng, depth - 1, profile, inline_ok=(inline_ok and i == n - 1)) for i in range(n)]
        return {"k": "group", "children": children, "fit": rng.random() < 0.7}
    if k == "columns":
        n = rng.choice([0, 1, 2, 3, 5, 9])
        items = []
        for _ in range(n):
            if rng.random() < 0.75:
                items.append(rand_text_spec(rng, profile, max_len=rng.choice([3, 8, 15])))
            else:
                items.append(gen_spec(rng, min(depth - 1, 1), profile, inline_ok=False))
        spec = {"k": "columns", "items": items, "equal": rng.random() < 0.3, "expand": rng.random() < 0.3,
                "column_first": rng.random() < 0.3, "right_to_left": rng.random() < 0.3,
                "align": rng.choice([None, None, "left", "center", "right"]),
                "padding": rand_pad(rng), "title": rng.choice([None, None, "cols"]), "width": None}
        if profile.get("allow_fixed") and rng.random() < 0.3:
            spec["width"] = rng.choice([1, 5, 20, 50, 300])
        return spec
    if k == "tree":
        def node(d):
            n = {"label": rand_text_spec(rng, profile, max_len=rng.choice([3, 8, 20])) if rng.random() < 0.85
                 else gen_spec(rng, 1, profile, inline_ok=False),
                 "expanded": rng.random() < 0.85, "children": [],
                 "guide_style": rng.choice([None, None, "bold", "underline2"])}
            if d > 0:
                for _ in range(rng.choice([0, 0, 1, 2, 3])):
                    n["children"].append(node(d - 1))
            return n
        return {"k": "tree", "root": node(rng.choice([0, 1, 2, 3]))}
    if k == "table":
        return gen_table_spec(rng, depth, profile)
    raise ValueError(k)


def gen_table_spec(rng, depth, profile, ncols=None, nrows=None, cell_gen=None):
    ncols = ncols if ncols is not None else rng.choice([0, 1, 1, 2, 3, 4, 6] if profile.get("allow_fixed") else [1, 1, 2, 3, 4, 6])
    nrows = nrows if nrows is not None else rng.choice([0, 1, 2, 3, 5, 8])
    overflows = ["fold", "crop", "ellipsis"] + (["ignore"] if profile.get("allow_ignore") else [])

    def cell():
        if cell_gen:
            return cell_gen()
        if rng.random() < 0.8 or depth <= 1:
            return rand_text_spec(rng, profile, max_len=rng.choice([0, 3, 8, 20]))
        return gen_spec(rng, min(depth - 1, 2), profile, inline_ok=False)
    expand = rng.random() < 0.4
    cols = []
    for _ in range(ncols):
        c = {"header": cell() if rng.random() < 0.8 else {"k": "text", "s": "", "justify": None, "overflow": None,
                                                         "no_wrap": None, "style": None},
             "footer": cell() if rng.random() < 0.5 else {"k": "text", "s": "", "justify": None, "overflow": None,
                                                         "no_wrap": None, "style": None},
             "justify": rng.choice(["left", "center", "right", "full"]),
             "overflow": rng.choice(overflows),
             "ratio": rng.choice([None, None, 1, 2, 5]) if expand else None,
             "max_width": rng.choice([None, None, None, 1, 4, 10, 30]),
             "width": None, "min_width": None, "no_wrap": False,
             "style": G.definition(G.rand_record(rng, p_attr=0.1)) if rng.random() < 0.2 else None}
        if profile.get("allow_fixed"):
            if rng.random() < 0.2:
                c["width"] = rng.choice([1, 3, 10, 50, 250])
            if rng.random() < 0.2:
                c["min_width"] = rng.choice([1, 3, 10, 50, 250])
            c["no_wrap"] = rng.random() < 0.2
        cols.append(c)
    rows = []
    for _ in range(nrows):
        n = ncols if rng.random() < 0.9 else rng.randint(0, ncols)
        rows.append({"cells": [cell() for _ in range(n)], "end_section": rng.random() < 0.15,
                     "style": rng.choice([None, None, "on blue", "dim"])})
    spec = {"k": "table", "columns": cols, "rows": rows,
            "box": rng.choice(BOX_NAMES + [None, None]), "safe_box": rng.choice([None, True, False]),
            "show_header": rng.random() < 0.8, "show_footer": rng.random() < 0.3,
            "show_edge": rng.random() < 0.8, "show_lines": rng.random() < 0.3,
            "leading": rng.choice([0, 0, 0, 1, 2, 3]), "padding": rand_pad(rng),
            "pad_edge": rng.random() < 0.7, "collapse_padding": rng.random() < 0.3,
            "expand": expand, "width": None, "min_width": rng.choice([None, None, None, 10, 40, 120]),
            "title": rng.choice([None, None, "Title", "a long table title here 漢字"]),
            "caption": rng.choice([None, None, "cap"]),
            "row_styles": rng.choice([None, None, ["", "dim"], ["on red"]]),
            "style": "none"}
    if profile.get("allow_fixed") and rng.random() < 0.25:
        spec["width"] = rng.choice([1, 5, 20, 60, 250])
    if ncols >= 2 and nrows >= 1 and rng.random() < 0.12:
        make_ragged(spec, rng, lambda i, j: cell())
    return spec


def make_ragged(spec, rng, cell):
    """Construction route "ragged": only the first `declared` columns are declared with add_column; the others come
    into being when a row arrives with more cells than there are columns (Table.add_row creates them and back-fills
    blank cells for the rows already present); their options are set on the Column objects afterwards.
    `cell(row, col)`-less callers pass a nullary cell factory."""
    ncols, rows = len(spec["columns"]), spec["rows"]
    declared = rng.randint(0, ncols - 1)
    first_full = rng.randint(0, len(rows) - 1)
    for i, r in enumerate(rows):
        if i < first_full:
            del r["cells"][declared:]
        elif i == first_full:
            while len(r["cells"]) < ncols:
                r["cells"].append(cell(i, len(r["cells"])))
    spec["declared"] = declared
    return spec


class NoMeasure:
    """A renderable with __rich_console__ only."""

    def __init__(self, child):
        self.child = child

    def __rich_console__(self, console, options):
        yield self.child


class WithControl:
    """A renderable that emits a control segment and then its child; measures as its child."""

    def __init__(self, child, code):
        self.child = child
        self.code = code

    def __rich_console__(self, console, options):
        from rich.control import Control
        yield Control(self.code)
        yield self.child

    def __rich_measure__(self, console, max_width):
        from rich.measure import Measurement
        return Measurement.get(console, self.child, max_width)


class RichCast:
    """An object that is rendered through __rich__."""

    def __init__(self, child):
        self.child = child

    def __rich__(self):
        return self.child


# --------------------------------------------------------------------------------------------
def _alt(spec, n, salt=""):
    """Deterministic choice of an alternative (documented, equivalent) construction route for a spec: the
    generator's random stream is not consumed, the same spec always takes the same route."""
    from rv.core.ctx import stable_hash
    return stable_hash(salt + repr(sorted((k, repr(v)) for k, v in spec.items() if k not in ("child", "children", "items", "rows", "root")))) % n


def _rt(value):
    """An option value as a program gets it at RUN TIME (read from a settings file, a command line, lower-cased ...):
    equal to the literal, but not the interpreter's one shared object for it."""
    if isinstance(value, str) and value:
        return (value + "\0")[:-1]
    return value


def build(spec):
    """A fresh Rich renderable for the spec."""
    k = spec["k"]
    if k == "text":
        from rich.text import Text
        return Text(spec["s"], style=spec.get("style") or "", justify=_rt(spec.get("justify")),
                    overflow=_rt(spec.get("overflow")), no_wrap=spec.get("no_wrap"), tab_size=spec.get("tab_size", 8))
    if k == "rule":
        from rich.rule import Rule
        return Rule(spec["title"], characters=spec["characters"], align=spec["align"], **spec.get("decor", {}))
    if k == "bar":
        from rich.bar import Bar
        return Bar(spec["size"], spec["begin"], spec["end"], width=spec["width"], **spec.get("decor", {}))
    if k == "pbar":
        from rich.progress_bar import ProgressBar
        return ProgressBar(total=spec["total"], completed=spec["completed"], width=spec["width"],
                           pulse=spec["pulse"], animation_time=1.0, **spec.get("decor", {}))
    if k == "panel":
        from rich.panel import Panel
        from rich import box
        if not spec["expand"] and _alt(spec, 2) == 0:
            return Panel.fit(build(spec["child"]), getattr(box, spec["box"]), title=build_title(spec),
                             title_align=spec["title_align"], width=spec["width"], padding=spec["padding"],
                             safe_box=spec.get("safe_box"), style=spec.get("style", "none"), **spec.get("decor", {}))
        return Panel(build(spec["child"]), getattr(box, spec["box"]), title=build_title(spec),
                     title_align=spec["title_align"], expand=spec["expand"], width=spec["width"],
                     padding=spec["padding"], safe_box=spec.get("safe_box"), style=spec.get("style", "none"),
                     **spec.get("decor", {}))
    if k == "padding":
        from rich.padding import Padding
        pad = spec["pad"]
        if not spec["expand"] and isinstance(pad, tuple) and len(pad) == 4 and pad[:3] == (0, 0, 0):
            if "decor" not in spec:
                return Padding.indent(build(spec["child"]), pad[3])
        return Padding(build(spec["child"]), pad, expand=spec["expand"], **spec.get("decor", {}))
    if k == "align":
        from rich.align import Align
        if _alt(spec, 3) == 0:
            return getattr(Align, spec["align"])(build(spec["child"]), pad=spec["pad"], width=spec["width"],
                                                 **spec.get("decor", {}))
        return Align(build(spec["child"]), spec["align"], pad=spec["pad"], width=spec["width"], **spec.get("decor", {}))
    if k == "constrain":
        from rich.constrain import Constrain
        return Constrain(build(spec["child"]), spec["width"])
    if k == "styled":
        from rich.styled import Styled
        return Styled(build(spec["child"]), spec["style"])
    if k == "vcenter":
        from rich.align import VerticalCenter
        return VerticalCenter(build(spec["child"]))
    if k == "group":
        from rich.console import RenderGroup
        return RenderGroup(*[build(c) for c in spec["children"]], fit=spec["fit"])
    if k == "columns":
        from rich.columns import Columns
        if _alt(spec, 3) == 0:
            cols = Columns(None, padding=spec["padding"], width=spec.get("width"),
                           expand=spec["expand"], equal=spec["equal"], column_first=spec["column_first"],
                           right_to_left=spec["right_to_left"], align=spec["align"], title=spec["title"])
            for i in spec["items"]:
                cols.add_renderable(build(i))
            return cols
        return Columns([build(i) for i in spec["items"]], padding=spec["padding"], width=spec.get("width"),
                       expand=spec["expand"], equal=spec["equal"], column_first=spec["column_first"],
                       right_to_left=spec["right_to_left"], align=spec["align"], title=spec["title"])
    if k == "tree":
        from rich.tree import Tree

        def mk(node, parent=None):
            kw = {"expanded": node["expanded"]}
            if node.get("guide_style"):
                kw["guide_style"] = node["guide_style"]
            if parent is None:
                kw.update(spec.get("decor", {}))
            t = Tree(build(node["label"]), **kw) if parent is None else parent.add(build(node["label"]), **kw)
            for c in node["children"]:
                mk(c, t)
            return t
        return mk(spec["root"])
    if k == "table":
        return build_table(spec)
    if k == "ctrl":         # control code, then the child
        return WithControl(build(spec["child"]), spec["code"])
    if k == "nomeasure":    # a renderable without __rich_measure__
        return NoMeasure(build(spec["child"]))
    if k == "richcast":     # an object cast through __rich__
        return RichCast(build(spec["child"]))
    if k == "raw":          # a ready-made object factory (used by a few checks)
        return spec["factory"]()
    raise ValueError(k)


def _add_late_column(t, late):
    c = late["column"]
    t.add_column(build(c["header"]), build(c["footer"]), justify=_rt(c["justify"]), overflow=_rt(c["overflow"]),
                 ratio=c["ratio"], max_width=c["max_width"], width=c["width"], min_width=c["min_width"],
                 no_wrap=c["no_wrap"], style=c.get("style"))


def build_table(spec):
    from rich.table import Table
    from rich import box
    t = Table(title=spec["title"], caption=spec["caption"], width=spec["width"], min_width=spec["min_width"],
              box=getattr(box, spec["box"]) if spec["box"] else None, safe_box=spec.get("safe_box"),
              padding=spec["padding"], collapse_padding=spec["collapse_padding"], pad_edge=spec["pad_edge"],
              expand=spec["expand"], show_header=spec["show_header"], show_footer=spec["show_footer"],
              show_edge=spec["show_edge"], show_lines=spec["show_lines"], leading=spec["leading"],
              row_styles=spec["row_styles"], style=spec.get("style", "none"), **spec.get("decor", {}))
    declared = spec.get("declared", len(spec["columns"]))
    route = _alt(spec, 4) if "declared" not in spec else 3
    if spec.get("late_column") is not None:
        # the last column is added with add_column AFTER some rows exist (it is blank for those rows)
        declared, route = len(spec["columns"]) - 1, 3
    if route == 0 and spec["columns"]:
        # columns handed to the constructor as Column objects (documented: Table(*headers: Union[Column, str]))
        from rich.table import Column
        kw = dict(title=spec["title"], caption=spec["caption"], width=spec["width"], min_width=spec["min_width"],
                  box=getattr(box, spec["box"]) if spec["box"] else None, safe_box=spec.get("safe_box"),
                  padding=spec["padding"], collapse_padding=spec["collapse_padding"], pad_edge=spec["pad_edge"],
                  expand=spec["expand"], show_header=spec["show_header"], show_footer=spec["show_footer"],
                  show_edge=spec["show_edge"], show_lines=spec["show_lines"], leading=spec["leading"],
                  row_styles=spec["row_styles"], style=spec.get("style", "none"), **spec.get("decor", {}))
        cols = [Column(build(c["header"]), build(c["footer"]), justify=_rt(c["justify"]), overflow=_rt(c["overflow"]),
                       ratio=c["ratio"], max_width=c["max_width"], width=c["width"], min_width=c["min_width"],
                       no_wrap=c["no_wrap"], style=c.get("style") or "") for c in spec["columns"]]
        if _alt(spec, 3, salt="cols-reused") == 0:
            # the column definitions were used for another table first (a program that shows two tables of the same
            # shape): what that table holds is none of this table's business
            earlier = Table(*cols)
            earlier.add_row(*["EARLIER-TABLE"] * len(cols))
        t = Table(*cols, **kw)
        declared = 0
        spec = dict(spec, columns=[])       # (only for the loop below: nothing left to declare)
        for r in spec["rows"]:
            t.add_row(*[build(c) for c in r["cells"]], style=r["style"], end_section=r["end_section"])
        return t
    late = spec.get("late_column")
    if route == 1:
        # options changed after construction through the documented setters
        t.expand = not spec["expand"]
        t.expand = spec["expand"]
        t.padding = (3, 3, 3, 3)
        t.padding = spec["padding"]
    for c in spec["columns"][:declared]:
        t.add_column(build(c["header"]), build(c["footer"]), justify=_rt(c["justify"]), overflow=_rt(c["overflow"]),
                     ratio=c["ratio"], max_width=c["max_width"], width=c["width"], min_width=c["min_width"],
                     no_wrap=c["no_wrap"], style=c.get("style"))
    for i, r in enumerate(spec["rows"]):
        if spec.get("rejected_row_before") == i:
            # the program tries to add a row one of whose cells is not renderable, catches the error and goes on:
            # the table is as if that call had never been made
            from rich.errors import NotRenderableError
            try:
                t.add_row("rejected", *([12345] * max(1, len(t.columns) - 1)))
            except NotRenderableError:
                pass
        if late is not None and i == late["after_rows"]:
            _add_late_column(t, late)
        t.add_row(*[build(c) for c in r["cells"]], style=r["style"], end_section=r["end_section"])
    if late is not None and late["after_rows"] >= len(spec["rows"]):
        _add_late_column(t, late)
    if declared < len(spec["columns"]):
        assert len(t.columns) == len(spec["columns"]), "generator: a ragged table must get all its columns from rows"
        for c, col in list(zip(spec["columns"], t.columns))[declared:]:
            col.header, col.footer = build(c["header"]), build(c["footer"])
            col.justify, col.overflow, col.ratio, col.max_width = _rt(c["justify"]), _rt(c["overflow"]), c["ratio"], c["max_width"]
            col.width, col.min_width, col.no_wrap = c["width"], c["min_width"], c["no_wrap"]
            if c.get("style"):
                col.style = c["style"]
    return t


# --------------------------------------------------------------------------------------------
def all_strings(spec):
    k = spec["k"]
    if k == "text":
        yield spec["s"]
    elif k == "rule":
        yield spec["title"]
        yield spec["characters"]
    elif k == "panel":
        yield (spec["title_text"]["s"] if spec.get("title_text") else spec["title"]) or ""
        yield from all_strings(spec["child"])
    elif k in ("padding", "align", "constrain", "styled", "vcenter", "nomeasure", "richcast", "ctrl"):
        yield from all_strings(spec["child"])
    elif k == "group":
        for c in spec["children"]:
            yield from all_strings(c)
    elif k == "columns":
        yield spec["title"] or ""
        for c in spec["items"]:
            yield from all_strings(c)
    elif k == "tree":
        def walk(n):
            yield from all_strings(n["label"])
            for c in n["children"]:
                yield from walk(c)
        yield from walk(spec["root"])
    elif k == "table":
        yield spec["title"] or ""
        yield spec["caption"] or ""
        for c in spec["columns"]:
            yield from all_strings(c["header"])
            yield from all_strings(c["footer"])
        for r in spec["rows"]:
            for c in r["cells"]:
                yield from all_strings(c)


def depth(spec):
    k = spec["k"]
    if k in ("panel", "padding", "align", "constrain", "styled", "vcenter", "nomeasure", "richcast", "ctrl"):
        return 1 + depth(spec["child"])
    if k == "group":
        return 1 + max([depth(c) for c in spec["children"]] or [0])
    if k == "columns":
        return 1 + max([depth(c) for c in spec["items"]] or [0])
    if k == "tree":
        def walk(n):
            return max([depth(n["label"])] + [walk(c) for c in n["children"]])
        return 1 + walk(spec["root"])
    if k == "table":
        ds = [0]
        for c in spec["columns"]:
            ds += [depth(c["header"]), depth(c["footer"])]
        for r in spec["rows"]:
            ds += [depth(c) for c in r["cells"]]
        return 1 + max(ds)
    return 0


def kinds(spec, acc=None):
    acc = acc if acc is not None else set()
    acc.add(spec["k"])
    k = spec["k"]
    if k in ("panel", "padding", "align", "constrain", "styled", "vcenter", "nomeasure", "richcast", "ctrl"):
        kinds(spec["child"], acc)
    elif k == "group":
        for c in spec["children"]:
            kinds(c, acc)
    elif k == "columns":
        for c in spec["items"]:
            kinds(c, acc)
    elif k == "tree":
        def walk(n):
            kinds(n["label"], acc)
            for c in n["children"]:
                walk(c)
        walk(spec["root"])
    elif k == "table":
        for c in spec["columns"]:
            kinds(c["header"], acc)
            kinds(c["footer"], acc)
        for r in spec["rows"]:
            for c in r["cells"]:
                kinds(c, acc)
    return acc


def structural_min(spec, c=None):
    """The structural minimum m(spec) of DESIGN section 3.4 (errs upward)."""
    if c is None:
        c = 2 if any(S.has_wide(s) for s in all_strings(spec)) else 1
    k = spec["k"]
    if k in ("text", "rule", "bar", "pbar"):
        return c
    if k == "padding":
        _, r, _, l = unpack_pad(spec["pad"])
        return structural_min(spec["child"], c) + l + r
    if k == "panel":
        _, r, _, l = unpack_pad(spec["padding"])
        return structural_min(spec["child"], c) + 2 + l + r      # (a title needs no room of its own: it is cut to fit)
    if k in ("align", "constrain", "styled", "vcenter", "nomeasure", "richcast", "ctrl"):
        return structural_min(spec["child"], c)
    if k == "group":
        return max([structural_min(x, c) for x in spec["children"]] or [c])
    if k == "tree":
        def walk(n, d):
            return max([structural_min(n["label"], c) + 4 * d] +
                       [walk(x, d + 1) for x in (n["children"] if n["expanded"] else [])])
        return walk(spec["root"], 0)
    if k == "columns":
        _, r, _, l = unpack_pad(spec["padding"])
        return max([structural_min(x, c) for x in spec["items"]] or [c]) + l + r
    if k == "table":
        _, r, _, l = unpack_pad(spec["padding"])
        total = 0
        ncols = len(spec["columns"])
        for i, col in enumerate(spec["columns"]):
            cells = [col["header"], col["footer"]] + [row["cells"][i] for row in spec["rows"] if i < len(row["cells"])]
            total += max(structural_min(x, c) for x in cells) + l + r
        if spec["box"]:
            total += max(ncols - 1, 0)
            if spec["show_edge"]:
                total += 2
        return max(total, c)
    raise ValueError(k)


def render_lines_cells(console, renderable, options=None):
    """Line cell-widths (reference width) of Console.render output, split at newlines of non-control
    segments.  Returns (list of widths, list of plain lines)."""
    widths, lines = [], []
    cur = []
    for seg in console.render(renderable, options or console.options):
        if seg.is_control:
            continue
        parts = seg.text.split("\n")
        for i, p in enumerate(parts):
            if i:
                line = "".join(cur)
                lines.append(line)
                widths.append(cellref.width(line))
                cur = []
            cur.append(p)
    if cur and "".join(cur):
        line = "".join(cur)
        lines.append(line)
        widths.append(cellref.width(line))
    return widths, lines
