"""Style space: 13 tri-state attributes x colour x bgcolor x optional link.

Every generated style carries its *expectation record*, produced by the generator and never
read back from Rich:  {"attrs": {name: bool}, "fg": colourspec|None, "bg": ..., "link": str|None}
colourspec = ("default",) | ("named", name, number) | ("num", n) | ("hex", r, g, b) | ("rgb", r, g, b)
"""
from rv.model import docs_colors

ATTRS = ["bold", "dim", "italic", "underline", "blink", "blink2", "reverse", "conceal", "strike",
         "underline2", "frame", "encircle", "overline"]
SHORT = {"bold": "b", "dim": "d", "italic": "i", "underline": "u", "reverse": "r", "conceal": "c",
         "strike": "s", "underline2": "uu", "overline": "o"}
URL_CHARS = "abcxyzABC019:/%=#?&._-~+@"


def rand_colorspec(rng):
    r = rng.random()
    if r < 0.08:
        return ("default",)
    if r < 0.40:
        number, name, _ = rng.choice(docs_colors.rows())
        return ("named", name, number)
    if r < 0.60:
        return ("num", rng.choice([0, 1, 7, 8, 9, 15, 16, 17, 231, 232, 255, rng.randrange(256)]))
    rgb = (rng.randrange(256), rng.randrange(256), rng.randrange(256))
    if rng.random() < 0.2:
        v = rng.randrange(256)
        rgb = (v, v, v)
    return ("hex" if r < 0.8 else "rgb",) + rgb


def related_colorspecs(rng):
    """A family of colours that are easy to confuse with one another: an index n, the RGB triples built from n,
    the same index as a named colour, neighbours.  Used to build per-case palettes."""
    n = rng.choice([0, 1, 7, 8, 15, 16, 128, 200, 231, 232, 255, rng.randrange(256)])
    fam = [("num", n), ("hex", 0, 0, n), ("rgb", 0, n, 0), ("hex", n, 0, 0), ("rgb", n, n, n), ("num", (n + 1) % 256),
           ("hex", 0, 0, (n + 1) % 256), ("num", n % 16), ("num", 8 + n % 8), ("default",)]
    for number, name, _ in docs_colors.rows():
        if number == n:
            fam.append(("named", name, number))
            break
    return fam


def spell(spec):
    k = spec[0]
    if k == "default":
        return "default"
    if k == "named":
        return spec[1]
    if k == "num":
        return "color(%d)" % spec[1]
    if k == "hex":
        return "#%02x%02x%02x" % spec[1:]
    return "rgb(%d,%d,%d)" % spec[1:]


def expected_color(spec):
    """(kind, number, triplet) with kind in default/standard/eight_bit/truecolor."""
    k = spec[0]
    if k == "default":
        return ("default", None, None)
    if k in ("named", "num"):
        n = spec[2] if k == "named" else spec[1]
        return ("standard" if n < 16 else "eight_bit", n, None)
    return ("truecolor", None, tuple(spec[1:]))


# fragments that mean something to string formatting / templating / regex substitution: a URL or a text must pass
# through any amount of internal string assembly untouched
HOSTILE_FRAGMENTS = ["{0}", "{}", "{text}", "%s", "%(a)s", "%%", "$1", "\\1", "\\g<0>", "{{", "}}", "{0", "&amp;"]


def rand_url(rng):
    scheme = rng.choice(["http://", "https://", "file:///", "mailto:", "x:"])
    body = "".join(rng.choice(URL_CHARS) for _ in range(rng.randint(1, 12)))
    if rng.random() < 0.15:
        pos = rng.randint(0, len(body))
        body = body[:pos] + rng.choice(HOSTILE_FRAGMENTS) + body[pos:]
    return scheme + body


def rand_record(rng, p_attr=None, p_fg=0.5, p_bg=0.35, p_link=0.15, allow_false=True, colors=None):
    if p_attr is None:
        p_attr = rng.choice([0.0, 0.08, 0.15, 0.3, 0.6])
    attrs = {}
    for a in ATTRS:
        if rng.random() < p_attr:
            attrs[a] = True if (not allow_false or rng.random() < 0.65) else False
    rec = {"attrs": attrs,
           "fg": (rng.choice(colors) if colors else rand_colorspec(rng)) if rng.random() < p_fg else None,
           "bg": (rng.choice(colors) if colors else rand_colorspec(rng)) if rng.random() < p_bg else None,
           "link": rand_url(rng) if rng.random() < p_link else None}
    return rec


def near_twin(rec, rng):
    """A record that differs from rec in exactly one place: one attribute flipped (on <-> off), added or removed, or
    the link / one colour dropped.  Two such styles in one flush are what a cache keyed by a lossy style key, an
    equality by hash or a sloppy bit-field confuses."""
    twin = {"attrs": dict(rec["attrs"]), "fg": rec["fg"], "bg": rec["bg"], "link": rec["link"]}
    r = rng.random()
    if r < 0.45 and twin["attrs"]:
        a = rng.choice(sorted(twin["attrs"]))
        twin["attrs"][a] = not twin["attrs"][a]
    elif r < 0.75:
        a = rng.choice(ATTRS)
        if a in twin["attrs"]:
            del twin["attrs"][a]
        else:
            twin["attrs"][a] = rng.random() < 0.5
    elif r < 0.85 and twin["link"]:
        twin["link"] = None
    elif r < 0.93 and twin["fg"]:
        twin["fg"] = None
    else:
        a = rng.choice(ATTRS)
        twin["attrs"][a] = not twin["attrs"].get(a, False)
    return twin


def is_null(rec):
    return not rec["attrs"] and rec["fg"] is None and rec["bg"] is None and rec["link"] is None


def add_records(a, b):
    """Expected a + b: right operand wins exactly where it specifies a value."""
    attrs = dict(a["attrs"])
    attrs.update(b["attrs"])
    return {"attrs": attrs,
            "fg": b["fg"] if b["fg"] is not None else a["fg"],
            "bg": b["bg"] if b["bg"] is not None else a["bg"],
            "link": b["link"] if b["link"] is not None else a["link"]}


def build(rec):
    """Keyword construction with string colours."""
    from rich.style import Style
    kw = dict(rec["attrs"])
    if rec["fg"] is not None:
        kw["color"] = spell(rec["fg"])
    if rec["bg"] is not None:
        kw["bgcolor"] = spell(rec["bg"])
    if rec["link"] is not None:
        kw["link"] = rec["link"]
    return Style(**kw)


def definition(rec, rng=None, short=False, randcase=False):
    """A style definition string for the record; word groups in random order if rng given."""
    groups = []
    for a, v in rec["attrs"].items():
        word = a
        if short and a in SHORT and (rng is None or rng.random() < 0.5):
            word = SHORT[a]
        groups.append(word if v else "not " + word)
    if rec["fg"] is not None:
        groups.append(spell(rec["fg"]))
    if rec["bg"] is not None:
        groups.append("on " + spell(rec["bg"]))
    if rng is not None:
        rng.shuffle(groups)
    if randcase and rng is not None:
        # letter case is varied only where the parser documents nothing either way but plainly
        # lower-cases (attribute words, colour words); the word after "not" is left alone
        groups = [g if g.startswith("not ") else
                  "".join(c.upper() if rng.random() < 0.4 else c for c in g) for g in groups]
    if rec["link"] is not None:
        g = "link " + rec["link"]
        if rng is not None:
            groups.insert(rng.randint(0, len(groups)), g)
        else:
            groups.append(g)
    return " ".join(groups) if groups else "none"


def color_view(color):
    """(kind, number, triplet) of a rich Color, by value."""
    if color is None:
        return None
    from rich.color import ColorType
    kind = {ColorType.DEFAULT: "default", ColorType.STANDARD: "standard",
            ColorType.EIGHT_BIT: "eight_bit", ColorType.TRUECOLOR: "truecolor",
            ColorType.WINDOWS: "windows"}[color.type]
    return (kind, color.number, tuple(color.triplet) if color.triplet is not None else None)


def view(style):
    """What a rich Style says about itself, as an expectation-shaped value."""
    attrs = {}
    for a in ATTRS:
        v = getattr(style, a)
        if v is not None:
            attrs[a] = v
    return {"attrs": attrs, "fg": color_view(style.color), "bg": color_view(style.bgcolor),
            "link": style.link}


def expected_view(rec):
    return {"attrs": dict(rec["attrs"]),
            "fg": expected_color(rec["fg"]) if rec["fg"] is not None else None,
            "bg": expected_color(rec["bg"]) if rec["bg"] is not None else None,
            "link": rec["link"]}


def on_attrs(rec):
    return frozenset(a for a, v in rec["attrs"].items() if v)
